// C03 - element-wise array arithmetic, type promotion and value semantics.
// Oracle: scalar interpreter over long double complex numbers, checked per operator application;
// bitwise operand snapshots for value semantics; element-for-element selection oracles.
#include "dsp.h"

#include <complex>
#include <functional>
#include <type_traits>

using namespace vd;
namespace dl = dsplib;

enum Op
{
    ADD = 0,
    SUB = 1,
    MUL = 2,
    DIV = 3
};
static const char* OPN[] = {"+", "-", "*", "/"};

//---- compile-time promotion table (a wrong result type fails the harness build, i.e. the check exits 2) -----
static_assert(std::is_same_v<decltype(std::declval<arr_real>() + std::declval<arr_real>()), arr_real>);
static_assert(std::is_same_v<decltype(std::declval<arr_real>() * std::declval<arr_cmplx>()), arr_cmplx>);
static_assert(std::is_same_v<decltype(std::declval<arr_cmplx>() - std::declval<arr_real>()), arr_cmplx>);
static_assert(std::is_same_v<decltype(std::declval<arr_cmplx>() / std::declval<arr_cmplx>()), arr_cmplx>);
static_assert(std::is_same_v<decltype(std::declval<arr_real>() + 1), arr_real>);
static_assert(std::is_same_v<decltype(std::declval<arr_real>() + 1.0f), arr_real>);
static_assert(std::is_same_v<decltype(std::declval<arr_real>() / 2.0), arr_real>);
static_assert(std::is_same_v<decltype(std::declval<arr_real>() * cmplx_t{}), arr_cmplx>);
static_assert(std::is_same_v<decltype(std::declval<arr_real>() * std::complex<double>{}), arr_cmplx>);
static_assert(std::is_same_v<decltype(std::complex<double>{} * std::declval<arr_real>()), arr_cmplx>);
static_assert(std::is_same_v<decltype(std::declval<arr_cmplx>() - 1), arr_cmplx>);
static_assert(std::is_same_v<decltype(std::declval<arr_cmplx>() * std::complex<double>{}), arr_cmplx>);
static_assert(std::is_same_v<decltype(2 - std::declval<arr_real>()), arr_real>);
static_assert(std::is_same_v<decltype(2.0 / std::declval<arr_real>()), arr_real>);
static_assert(std::is_same_v<decltype(cmplx_t{} - std::declval<arr_real>()), arr_cmplx>);
static_assert(std::is_same_v<decltype(2 / std::declval<arr_cmplx>()), arr_cmplx>);
static_assert(std::is_same_v<decltype(std::complex<double>{} - std::declval<arr_cmplx>()), arr_cmplx>);
static_assert(std::is_same_v<decltype(std::declval<arr_real>() | std::declval<arr_cmplx>()), arr_cmplx>);
static_assert(std::is_same_v<decltype(std::declval<arr_cmplx>() | std::declval<arr_real>()), arr_cmplx>);
static_assert(std::is_same_v<decltype(std::declval<arr_real>() | std::declval<arr_real>()), arr_real>);
static_assert(std::is_same_v<decltype(-std::declval<arr_cmplx>()), arr_cmplx>);

//---- element access as long double complex ------------------------------------------------------------------
static C elt(const arr_real& a, int i) {
    return {a[i], 0};
}
static C elt(const arr_cmplx& a, int i) {
    return {a[i].re, a[i].im};
}
static C sc(double v) {
    return {v, 0};
}
static C sc(int v) {
    return {ld(v), 0};
}
static C sc(float v) {
    return {ld(v), 0};
}
static C sc(cmplx_t v) {
    return {v.re, v.im};
}
static C sc(std::complex<double> v) {
    return {v.real(), v.imag()};
}
static const char* tname(const arr_real&) {
    return "arr_real";
}
static const char* tname(const arr_cmplx&) {
    return "arr_cmplx";
}
static const char* tname(double) {
    return "real_t";
}
static const char* tname(int) {
    return "int";
}
static const char* tname(float) {
    return "float";
}
static const char* tname(cmplx_t) {
    return "cmplx_t";
}
static const char* tname(std::complex<double>) {
    return "std::complex<double>";
}

static bool in_domain(const C& v) {
    const ld m = ref::cabs(v);
    return (m == 0) || (m >= 1e-100L && m <= 1e100L);
}

//expected value and modulus scale; returns false when the case is outside the claimed domain
static bool expected(Op op, const C& x, const C& y, C* out, ld* M) {
    if (!in_domain(x) || !in_domain(y)) {
        return false;
    }
    const ld ax = ref::cabs(x);
    const ld ay = ref::cabs(y);
    switch (op) {
    case ADD:
        *out = x + y;
        *M = ax + ay;
        break;
    case SUB:
        *out = x - y;
        *M = ax + ay;
        break;
    case MUL:
        *out = x * y;
        *M = ax * ay;
        break;
    case DIV:
        if (ay == 0) {
            return false;
        }
        *out = x / y;
        *M = ax / ay;
        break;
    }
    if (*M > 1e200L || (*M != 0 && *M < 1e-200L)) {
        return false;
    }
    return true;
}

using Get = std::function<C(int)>;

//judge one operator application
template<class R>
static void judge(const std::string& combo, Op op, int n, const Get& L, const Get& Rr, const R& res) {
    vh::Hasher h;
    h.s(combo).i(op).i(n);
    for (int i = 0; i < n && i < 8; ++i) {
        const C a = L(i);
        const C b = Rr(i);
        h.d(double(a.re)).d(double(a.im)).d(double(b.re)).d(double(b.im));
    }
    vh::count(h.get(), n > 0);
    vh::obs_add("operator_applications");
    if (res.size() != n) {
        vh::violation("C03/length/" + combo, vh::fmt("%s %s: result has %d elements, operands %d", combo.c_str(), OPN[op], res.size(), n));
        return;
    }
    for (int i = 0; i < n; ++i) {
        C want;
        ld M = 0;
        const C x = L(i);
        const C y = Rr(i);
        if (!expected(op, x, y, &want, &M)) {
            vh::skip("element_outside_claimed_domain");
            continue;
        }
        const C got = elt(res, i);
        const ld err = ref::cabs(got - want);
        vh::obs_add("elements_judged");
        if (M > 0) {
            vh::obs_max("err_over_eps_M", double(err / (ref::EPS * M)));
        }
        //the field formulas evaluated in floating point are accurate per COMPONENT: re and im of a product carry the rounding of
        //their own two products only (a normwise-accurate shortcut such as the 3-multiplication product loses a small component
        //next to a large one); the same holds for the quotient's numerators over |y|^2
        if (op == MUL || op == DIV) {
            const ld den = (op == DIV) ? (y.re * y.re + y.im * y.im) : 1.0L;
            const ld yr = y.re, yi = (op == DIV) ? -y.im : y.im;   //x / y = x * conj(y) / |y|^2
            const ld mre = (fabsl(x.re * yr) + fabsl(x.im * yi)) / den;
            const ld mim = (fabsl(x.re * yi) + fabsl(x.im * yr)) / den;
            const ld k = (op == DIV) ? 8 : 4;
            const ld ere = fabsl(got.re - want.re);
            const ld eim = fabsl(got.im - want.im);
            if (mre > 1e-280L) {
                vh::obs_max("component_err_over_eps_m", double(ere / (ref::EPS * mre)));
            }
            if (mim > 1e-280L) {
                vh::obs_max("component_err_over_eps_m", double(eim / (ref::EPS * mim)));
            }
            if (!(ere <= k * ref::EPS * mre + 1e-300L) || !(eim <= k * ref::EPS * mim + 1e-300L)) {
                vh::violation(vh::fmt("C03/component/%s/%s", combo.c_str(), OPN[op]),
                              vh::fmt("%s: element %d: (%.17Lg%+.17Lgi) %s (%.17Lg%+.17Lgi) gave (%.17Lg%+.17Lgi), expected (%.17Lg%+.17Lgi): component errors (%.3Le, %.3Le) exceed %.0Lf*eps*(sum of the "
                                      "magnitudes of that component's two products) = (%.3Le, %.3Le)",
                                      combo.c_str(), i, x.re, x.im, OPN[op], y.re, y.im, got.re, got.im, want.re, want.im, ere, eim, k, k * ref::EPS * mre, k * ref::EPS * mim));
                return;
            }
        }
        if (!(err <= 4 * ref::EPS * M)) {
            vh::violation(vh::fmt("C03/value/%s/%s", combo.c_str(), OPN[op]),
                          vh::fmt("%s: element %d: (%.17Lg%+.17Lgi) %s (%.17Lg%+.17Lgi) gave (%.17Lg%+.17Lgi), expected (%.17Lg%+.17Lgi); |err|=%.3Le > 4*eps*M=%.3Le",
                                  combo.c_str(), i, x.re, x.im, OPN[op], y.re, y.im, got.re, got.im, want.re, want.im, err, 4 * ref::EPS * M));
            return;
        }
    }
}

template<class A, class B>
static auto apply4(Op op, const A& a, const B& b);

template<class A, class B>
constexpr bool mul_only_v = (std::is_same_v<A, arr_real> && std::is_same_v<B, std::complex<double>>) ||
                            (std::is_same_v<A, std::complex<double>> && std::is_same_v<B, arr_real>);

template<class A, class B>
static auto apply(Op op, const A& a, const B& b) {
    if constexpr (mul_only_v<A, B>) {
        return a * b;
    } else {
        return apply4(op, a, b);
    }
}

template<class A, class B>
static auto apply4(Op op, const A& a, const B& b) {
    switch (op) {
    case ADD:
        return a + b;
    case SUB:
        return a - b;
    case MUL:
        return a * b;
    default:
        return a / b;
    }
}

//the same applications with genuine temporaries (rvalues) as operands - which = 1: left, 2: right, 3: both - so that overloads taking
//base_array&& (storage reuse) are the ones selected, as in a - (b * c)
template<class A, class B>
static auto apply_rv(Op op, const A& a, const B& b, int which) {
    if constexpr (mul_only_v<A, B>) {
        return (which == 1) ? A(a) * b : ((which == 2) ? a * B(b) : A(a) * B(b));
    } else {
        switch (op) {
        case ADD:
            return (which == 1) ? A(a) + b : ((which == 2) ? a + B(b) : A(a) + B(b));
        case SUB:
            return (which == 1) ? A(a) - b : ((which == 2) ? a - B(b) : A(a) - B(b));
        case MUL:
            return (which == 1) ? A(a) * b : ((which == 2) ? a * B(b) : A(a) * B(b));
        default:
            return (which == 1) ? A(a) / b : ((which == 2) ? a / B(b) : A(a) / B(b));
        }
    }
}

template<class A, class B>
static void apply_compound(Op op, A& a, const B& b) {
    switch (op) {
    case ADD:
        a += b;
        break;
    case SUB:
        a -= b;
        break;
    case MUL:
        a *= b;
        break;
    default:
        a /= b;
        break;
    }
}

template<class A>
static bool same_bits(const A& a, const A& b) {
    return bit_equal(a, b);
}

//array (op) array
template<class A, class B>
static auto arr_arr(Op op, const A& a, const B& b) {
    const std::string combo = std::string(tname(a)) + " op " + tname(b);
    vh::begin_case("arr_arr", "%s %s n=%d", combo.c_str(), OPN[op], a.size());
    const A a0 = a;
    const B b0 = b;
    auto r = apply(op, a, b);
    judge(combo, op, a.size(), [&](int i) { return elt(a0, i); }, [&](int i) { return elt(b0, i); }, r);
    if (!same_bits(a, a0) || !same_bits(b, b0)) {
        vh::violation("C03/operand_modified/" + combo, vh::fmt("%s %s modified an operand", combo.c_str(), OPN[op]));
    }
    //the same application with temporaries (rvalues) on either side, as in a - (b * c): same values
    {
        auto r1 = apply_rv(op, a, b, 1);
        auto r2 = apply_rv(op, a, b, 2);
        auto r3 = apply_rv(op, a, b, 3);
        if (!same_bits(r1, r) || !same_bits(r2, r) || !same_bits(r3, r)) {
            vh::violation("C03/temporary_operand_value/" + combo, vh::fmt("%s %s gives a different result when an operand is a temporary (n=%d)", combo.c_str(), OPN[op], a.size()));
        }
        vh::obs_add("applications_with_temporary_operands", 3);
    }
    return r;
}

//array (op) scalar
template<class A, class S>
static auto arr_sc(Op op, const A& a, const S& s) {
    const std::string combo = std::string(tname(a)) + " op " + tname(s);
    vh::begin_case("arr_sc", "%s %s n=%d", combo.c_str(), OPN[op], a.size());
    const A a0 = a;
    auto r = apply(op, a, s);
    judge(combo, op, a.size(), [&](int i) { return elt(a0, i); }, [&](int) { return sc(s); }, r);
    if (!same_bits(a, a0)) {
        vh::violation("C03/operand_modified/" + combo, vh::fmt("%s %s modified the array operand", combo.c_str(), OPN[op]));
    }
    return r;
}

//scalar (op) array
template<class S, class A>
static auto sc_arr(Op op, const S& s, const A& a) {
    const std::string combo = std::string(tname(s)) + " op " + tname(a);
    vh::begin_case("sc_arr", "%s %s n=%d", combo.c_str(), OPN[op], a.size());
    const A a0 = a;
    auto r = apply(op, s, a);
    judge(combo, op, a.size(), [&](int) { return sc(s); }, [&](int i) { return elt(a0, i); }, r);
    if (!same_bits(a, a0)) {
        vh::violation("C03/operand_modified/" + combo, vh::fmt("%s %s modified the array operand", combo.c_str(), OPN[op]));
    }
    return r;
}

//array (op)= array
template<class A, class B>
static void comp_arr(Op op, A& a, const B& b) {
    const std::string combo = std::string(tname(a)) + " op= " + tname(b);
    vh::begin_case("comp_arr", "%s %s= n=%d", combo.c_str(), OPN[op], a.size());
    const A a0 = a;
    const B b0 = b;
    apply_compound(op, a, b);
    judge(combo, op, a0.size(), [&](int i) { return elt(a0, i); }, [&](int i) { return elt(b0, i); }, a);
    if (!same_bits(b, b0)) {
        vh::violation("C03/operand_modified/" + combo, vh::fmt("%s %s= modified the right operand", combo.c_str(), OPN[op]));
    }
}

template<class A, class S>
static void comp_sc(Op op, A& a, const S& s) {
    const std::string combo = std::string(tname(a)) + " op= " + tname(s);
    vh::begin_case("comp_sc", "%s %s= n=%d", combo.c_str(), OPN[op], a.size());
    const A a0 = a;
    apply_compound(op, a, s);
    judge(combo, op, a0.size(), [&](int i) { return elt(a0, i); }, [&](int) { return sc(s); }, a);
}

//aliasing: a op= a
template<class A>
static void comp_self(Op op, A& a) {
    const std::string combo = std::string(tname(a)) + " op= itself";
    vh::begin_case("comp_self", "%s %s= n=%d", combo.c_str(), OPN[op], a.size());
    const A a0 = a;
    apply_compound(op, a, a);
    judge(combo, op, a0.size(), [&](int i) { return elt(a0, i); }, [&](int i) { return elt(a0, i); }, a);
}

//mismatched lengths must throw and leave both untouched
template<bool compound, class A, class B>
static void mismatch(Op op, A a, const B& b) {
    const std::string combo = std::string(tname(a)) + (compound ? " op= " : " op ") + tname(b);
    vh::begin_case("mismatch", "%s %s len %d vs %d", combo.c_str(), OPN[op], a.size(), b.size());
    const A a0 = a;
    const B b0 = b;
    vh::Hasher h;
    h.s("mismatch").s(combo).i(op).i(a.size()).i(b.size()).i(compound);
    vh::count(h.get(), true);
    const auto oc = try_call([&] {
        if constexpr (compound) {
            apply_compound(op, a, b);
        } else {
            (void)apply(op, a, b);
        }
    });
    vh::obs_add("length_mismatch_cases");
    if constexpr (!compound) {
        //temporaries on either side (results of sub-expressions) must be rejected just the same
        const auto o1 = try_call([&] { (void)apply_rv(op, a, b, 1); });
        const auto o2 = try_call([&] { (void)apply_rv(op, a, b, 2); });
        const auto o3 = try_call([&] { (void)apply_rv(op, a, b, 3); });
        if (o1 != Outcome::Threw || o2 != Outcome::Threw || o3 != Outcome::Threw) {
            vh::violation("C03/mismatch_not_rejected/temporary/" + combo,
                          vh::fmt("%s %s with lengths %d and %d did not throw when an operand was a temporary (left temp: %s, right temp: %s, both: %s)", combo.c_str(), OPN[op], a0.size(), b0.size(),
                                  o1 == Outcome::Threw ? "threw" : "returned", o2 == Outcome::Threw ? "threw" : "returned", o3 == Outcome::Threw ? "threw" : "returned"));
        }
    } else {
        const auto o2 = try_call([&] {
            switch (op) {
            case ADD: a += B(b); break;
            case SUB: a -= B(b); break;
            case MUL: a *= B(b); break;
            default:
                if constexpr (!mul_only_v<A, B>) {
                    a /= B(b);
                } else {
                    a *= B(b);
                }
                break;
            }
        });
        if (o2 != Outcome::Threw) {
            vh::violation("C03/mismatch_not_rejected/temporary/" + combo, vh::fmt("%s %s with lengths %d and %d did not throw when the right operand was a temporary", combo.c_str(), OPN[op], a0.size(), b0.size()));
        }
    }
    if (oc != Outcome::Threw) {
        vh::violation("C03/mismatch_not_rejected/" + combo, vh::fmt("%s %s with lengths %d and %d did not throw", combo.c_str(), OPN[op], a0.size(), b0.size()));
    }
    if (!same_bits(a, a0) || !same_bits(b, b0)) {
        vh::violation("C03/mismatch_modified_operand/" + combo, vh::fmt("%s %s with lengths %d and %d changed an operand", combo.c_str(), OPN[op], a0.size(), b0.size()));
    }
}

//---- value generators --------------------------------------------------------------------------------------
static double rnd_real(vh::Rng& r) {
    switch (r.below(10)) {
    case 0:
        return 0.0;
    case 1:
        return -0.0;
    case 2:
        return 1.0;
    case 3:
        return -1.0;
    case 4:
        return r.logmag(1e-100, 1e100);
    default:
        return r.logmag(1e-3, 1e3);
    }
}

static cmplx_t rnd_cmplx(vh::Rng& r) {
    switch (r.below(10)) {
    case 0:
        return {0.0, 0.0};
    case 1:
        return {0.0, 1.0};
    case 2:
        return {0.0, -1.0};
    case 3:
        //points on the axes, with either sign of the zero part
        switch (r.below(4)) {
        case 0:
            return {-0.0, r.logmag(1e-3, 1e3)};
        case 1:
            return {r.logmag(1e-3, 1e3), 0.0};
        case 2:
            return {r.logmag(1e-3, 1e3), -0.0};
        default:
            return {0.0, r.logmag(1e-3, 1e3)};
        }
    case 4: {
        const double m = std::fabs(r.logmag(1e-100, 1e100));
        const double p = r.uni(-3.14159, 3.14159);
        return {m * std::cos(p), m * std::sin(p)};
    }
    default:
        return {r.logmag(1e-3, 1e3), r.logmag(1e-3, 1e3)};
    }
}

static arr_real rnd_ar(vh::Rng& r, int n, bool wide) {
    arr_real a(n);
    for (int i = 0; i < n; ++i) {
        a[i] = wide ? rnd_real(r) : r.logmag(1e-3, 1e3);
    }
    return a;
}

static arr_cmplx rnd_ac(vh::Rng& r, int n, bool wide) {
    arr_cmplx a(n);
    for (int i = 0; i < n; ++i) {
        a[i] = wide ? rnd_cmplx(r) : cmplx_t{r.logmag(1e-3, 1e3), r.logmag(1e-3, 1e3)};
    }
    return a;
}

template<class A>
static bool all_in_domain(const A& a) {
    for (int i = 0; i < a.size(); ++i) {
        if (!in_domain(elt(a, i)) || !std::isfinite(double(elt(a, i).re)) || !std::isfinite(double(elt(a, i).im))) {
            return false;
        }
    }
    return true;
}

//---- one random program ------------------------------------------------------------------------------------
static void program(vh::Rng& r, int n, int depth) {
    const bool wide = r.coin();
    arr_real R[2] = {rnd_ar(r, n, wide), rnd_ar(r, n, wide)};
    arr_cmplx Cx[2] = {rnd_ac(r, n, wide), rnd_ac(r, n, wide)};
    std::string trace;
    for (int step = 0; step < depth; ++step) {
        const Op op = Op(r.below(4));
        const int i = int(r.below(2));
        const int j = int(r.below(2));
        const int k = int(r.below(2));
        const int kind = int(r.below(34));
        const double sd = rnd_real(r);
        const int si = int(r.pick(std::vector<int>{-3, -2, -1, 0, 1, 2, 3, 7, 1000, -1000}));
        const float sf = r.pick(std::vector<float>{0.5f, 1.5f, -2.25f, 1e10f, 3.0f, -0.0f, 1e-10f});
        const cmplx_t sc_ = rnd_cmplx(r);
        const std::complex<double> ss{rnd_real(r), rnd_real(r)};
        trace += vh::fmt("%d%s ", kind, OPN[op]);
        switch (kind) {
        //array op array
        case 0:
            R[k] = arr_arr(op, R[i], R[j]);
            break;
        case 1:
            Cx[k] = arr_arr(op, R[i], Cx[j]);
            break;
        case 2:
            Cx[k] = arr_arr(op, Cx[i], R[j]);
            break;
        case 3:
            Cx[k] = arr_arr(op, Cx[i], Cx[j]);
            break;
        //array op scalar
        case 4:
            R[k] = arr_sc(op, R[i], sd);
            break;
        case 5:
            R[k] = arr_sc(op, R[i], si);
            break;
        case 6:
            R[k] = arr_sc(op, R[i], sf);
            break;
        case 7:
            Cx[k] = arr_sc(op, R[i], sc_);
            break;
        case 8:
            Cx[k] = arr_sc(MUL, R[i], ss);   //only '*' is provided for arr_real with std::complex
            break;
        case 9:
            Cx[k] = arr_sc(op, Cx[i], sd);
            break;
        case 10:
            Cx[k] = arr_sc(op, Cx[i], si);
            break;
        case 11:
            Cx[k] = arr_sc(op, Cx[i], sf);
            break;
        case 12:
            Cx[k] = arr_sc(op, Cx[i], sc_);
            break;
        case 13:
            Cx[k] = arr_sc(op, Cx[i], ss);
            break;
        //scalar op array
        case 14:
            R[k] = sc_arr(op, sd, R[i]);
            break;
        case 15:
            R[k] = sc_arr(op, si, R[i]);
            break;
        case 16:
            R[k] = sc_arr(op, sf, R[i]);
            break;
        case 17:
            Cx[k] = sc_arr(op, sc_, R[i]);
            break;
        case 18:
            Cx[k] = sc_arr(MUL, ss, R[i]);
            break;
        case 19:
            Cx[k] = sc_arr(op, sd, Cx[i]);
            break;
        case 20:
            Cx[k] = sc_arr(op, si, Cx[i]);
            break;
        case 21:
            Cx[k] = sc_arr(op, sf, Cx[i]);
            break;
        case 22:
            Cx[k] = sc_arr(op, sc_, Cx[i]);
            break;
        case 23:
            Cx[k] = sc_arr(op, ss, Cx[i]);
            break;
        //compound
        case 24:
            if (i != j) {
                comp_arr(op, R[i], R[j]);
            } else {
                comp_self(op, R[i]);
            }
            break;
        case 25:
            comp_arr(op, Cx[i], R[j]);
            break;
        case 26:
            if (i != j) {
                comp_arr(op, Cx[i], Cx[j]);
            } else {
                comp_self(op, Cx[i]);
            }
            break;
        case 27:
            comp_sc(op, R[i], r.coin() ? sd : double(si));
            comp_sc(op, R[j], si);
            comp_sc(op, R[k], sf);
            break;
        case 28:
            comp_sc(op, Cx[i], sd);
            comp_sc(op, Cx[j], si);
            comp_sc(op, Cx[k], sf);
            break;
        case 29:
            comp_sc(op, Cx[i], sc_);
            comp_sc(op, Cx[j], ss);
            break;
        //unary
        case 30: {
            vh::begin_case("unary", "-arr n=%d", n);
            const arr_real a0 = R[i];
            const arr_real m = -R[i];
            const arr_real& p = +R[i];
            bool ok = (m.size() == n) && (&p == &R[i]) && bit_equal(R[i], a0);
            for (int t = 0; ok && t < n; ++t) {
                ok = (m[t] == -a0[t]) && (std::signbit(m[t]) != std::signbit(a0[t]));
            }
            vh::Hasher h;
            h.s("neg_r").u64(hash_arr(a0));
            vh::count(h.get(), n > 0);
            if (!ok) {
                vh::violation("C03/unary/arr_real", vh::fmt("unary minus/plus on arr_real n=%d wrong: %s -> %s", n, head(a0).c_str(), head(m).c_str()));
            }
            R[k] = m;
            break;
        }
        case 31: {
            vh::begin_case("unary", "-arr_cmplx n=%d", n);
            const arr_cmplx a0 = Cx[i];
            const arr_cmplx m = -Cx[i];
            bool ok = (m.size() == n) && bit_equal(Cx[i], a0);
            for (int t = 0; ok && t < n; ++t) {
                ok = (m[t].re == -a0[t].re) && (m[t].im == -a0[t].im);
            }
            vh::Hasher h;
            h.s("neg_c").u64(hash_arr(a0));
            vh::count(h.get(), n > 0);
            if (!ok) {
                vh::violation("C03/unary/arr_cmplx", vh::fmt("unary minus on arr_cmplx n=%d wrong", n));
            }
            Cx[k] = m;
            break;
        }
        //copy independence
        case 32: {
            vh::begin_case("copy", "copy independence n=%d", n);
            arr_real cp = R[i];
            arr_cmplx cc(Cx[j]);
            const arr_real src0 = R[i];
            const arr_cmplx srcc0 = Cx[j];
            for (int t = 0; t < n; ++t) {
                cp[t] = cp[t] + 1.0 + t;
                cc[t] = cmplx_t{-1.0 - t, 2.0};
            }
            cp *= 3.0;
            arr_real asg;
            asg = R[i];
            if (n > 0) {
                asg[0] = 12345.0;
            }
            vh::Hasher h;
            h.s("copy").u64(hash_arr(src0)).u64(hash_arr(srcc0));
            vh::count(h.get(), n > 0);
            if (!bit_equal(R[i], src0) || !bit_equal(Cx[j], srcc0)) {
                vh::violation("C03/copy_not_independent", vh::fmt("mutating a copy changed its source (n=%d)", n));
            }
            break;
        }
        //a = a op a (result assigned over an operand)
        case 33: {
            const arr_cmplx a0 = Cx[i];
            vh::begin_case("self_assign", "a = a %s a n=%d", OPN[op], n);
            Cx[i] = apply(op, Cx[i], Cx[i]);
            judge("arr_cmplx a = a op a", op, n, [&](int t) { return elt(a0, t); }, [&](int t) { return elt(a0, t); }, Cx[i]);
            break;
        }
        default:
            break;
        }
        //keep the pool inside the claimed domain
        for (int t = 0; t < 2; ++t) {
            if (!all_in_domain(R[t])) {
                R[t] = rnd_ar(r, n, wide);
            }
            if (!all_in_domain(Cx[t])) {
                Cx[t] = rnd_ac(r, n, wide);
            }
        }
    }
    vh::sample(vh::fmt("program n=%d depth=%d wide=%d steps(kind,op)=%s", n, depth, int(wide), trace.c_str()));
}

//---- selection / concatenation oracles ----------------------------------------------------------------------
template<class A>
static void selection(vh::Rng& r, const A& x, const char* tn) {
    const int n = x.size();
    //boolean mask
    {
        vh::begin_case("mask", "%s n=%d", tn, n);
        std::vector<bool> m(n);
        std::vector<int> want;
        for (int i = 0; i < n; ++i) {
            m[i] = r.below(3) != 0;
            if (m[i]) {
                want.push_back(i);
            }
        }
        const A x0 = x;
        const A y = x[m];
        bool ok = (y.size() == int(want.size()));
        for (int i = 0; ok && i < y.size(); ++i) {
            ok = std::memcmp(&y[i], &x0[want[i]], sizeof(y[i])) == 0;
        }
        vh::Hasher h;
        h.s("mask").s(tn).u64(hash_arr(x0)).i(want.size());
        vh::count(h.get(), n > 0);
        if (!ok || !bit_equal(x, x0)) {
            vh::violation(vh::fmt("C03/mask_selection/%s", tn), vh::fmt("x[vector<bool>] n=%d selected %d elements, expected %zu (or wrong values)", n, y.size(), want.size()));
        }
        //wrong mask length must throw
        std::vector<bool> bad(n + 1, true);
        if (try_call([&] { (void)x[bad]; }) != Outcome::Threw) {
            vh::violation(vh::fmt("C03/mask_length_not_rejected/%s", tn), vh::fmt("mask of length %d on array of %d accepted", n + 1, n));
        }
    }
    //index list (valid indices, duplicates, any order, possibly empty)
    {
        const int cnt = (n == 0) ? 0 : int(r.below(2 * n + 1));
        std::vector<int> idx(cnt);
        for (auto& v : idx) {
            v = int(r.below(n));
        }
        vh::begin_case("index_list", "%s n=%d count=%d", tn, n, cnt);
        const A x0 = x;
        const A y = x[idx];
        dl::arr_int ai(idx);
        const A z = x[ai];
        bool ok = (y.size() == cnt) && (z.size() == cnt);
        for (int i = 0; ok && i < cnt; ++i) {
            ok = std::memcmp(&y[i], &x0[idx[i]], sizeof(y[i])) == 0 && std::memcmp(&z[i], &x0[idx[i]], sizeof(y[i])) == 0;
        }
        vh::Hasher h;
        h.s("idx").s(tn).u64(hash_arr(x0)).i(cnt);
        for (auto v : idx) {
            h.i(v);
        }
        vh::count(h.get(), n > 0);
        vh::obs_add(cnt == 0 ? "empty_index_lists" : "index_lists");
        if (!ok || !bit_equal(x, x0)) {
            vh::violation(vh::fmt("C03/index_selection/%s/%s", tn, cnt == 0 ? "empty" : "nonempty"), vh::fmt("x[vector<int>] / x[arr_int] n=%d count=%d wrong", n, cnt));
        }
    }
}

static void concat(vh::Rng& r, bool wide) {
    const int n1 = int(r.below(20));
    const int n2 = int(r.below(20));
    const arr_real a = rnd_ar(r, n1, wide);
    const arr_real b = rnd_ar(r, n2, wide);
    const arr_cmplx c = rnd_ac(r, n1, wide);
    const arr_cmplx d = rnd_ac(r, n2, wide);
    vh::begin_case("concat", "n1=%d n2=%d", n1, n2);
    vh::Hasher h;
    h.s("concat").u64(hash_arr(a)).u64(hash_arr(b)).u64(hash_arr(c)).u64(hash_arr(d));
    vh::count(h.get(), n1 + n2 > 0);
    auto chk = [&](const char* what, const auto& res, const auto& x, const auto& y) {
        bool ok = res.size() == x.size() + y.size();
        for (int i = 0; ok && i < x.size(); ++i) {
            const C g = elt(res, i);
            const C w = elt(x, i);
            ok = (g.re == w.re) && (g.im == w.im);
        }
        for (int i = 0; ok && i < y.size(); ++i) {
            const C g = elt(res, x.size() + i);
            const C w = elt(y, i);
            ok = (g.re == w.re) && (g.im == w.im);
        }
        if (!ok) {
            vh::violation(vh::fmt("C03/concat/%s", what), vh::fmt("%s with lengths %d,%d wrong", what, x.size(), y.size()));
        }
    };
    chk("real|real", a | b, a, b);
    chk("real|cmplx", a | d, a, d);
    chk("cmplx|real", c | b, c, b);
    chk("cmplx|cmplx", c | d, c, d);
    {
        arr_real t = a;
        t |= b;
        chk("real|=real", t, a, b);
        arr_cmplx u = c;
        u |= b;
        chk("cmplx|=real", u, c, b);
        arr_cmplx v = c;
        v |= d;
        chk("cmplx|=cmplx", v, c, d);
        arr_real s = a;
        s |= s;
        chk("real|=itself", s, a, a);
        arr_cmplx w = d;
        w |= w;
        chk("cmplx|=itself", w, d, d);
    }
    //concatenate with 2..5 arguments
    {
        const arr_real e = rnd_ar(r, int(r.below(5)), wide);
        const arr_real f = rnd_ar(r, int(r.below(5)), wide);
        const arr_real g = rnd_ar(r, int(r.below(5)), wide);
        std::vector<const arr_real*> parts = {&a, &b, &e, &f, &g};
        for (int cntp = 2; cntp <= 5; ++cntp) {
            arr_real res;
            switch (cntp) {
            case 2:
                res = dl::concatenate(a, b);
                break;
            case 3:
                res = dl::concatenate(a, b, e);
                break;
            case 4:
                res = dl::concatenate(a, b, e, f);
                break;
            default:
                res = dl::concatenate(a, b, e, f, g);
                break;
            }
            std::vector<double> want;
            for (int p = 0; p < cntp; ++p) {
                for (int i = 0; i < parts[p]->size(); ++i) {
                    want.push_back((*parts[p])[i]);
                }
            }
            bool ok = res.size() == int(want.size());
            for (int i = 0; ok && i < res.size(); ++i) {
                ok = std::memcmp(&res[i], &want[i], sizeof(double)) == 0;
            }
            if (!ok) {
                vh::violation(vh::fmt("C03/concatenate/%dargs", cntp), vh::fmt("concatenate of %d arrays wrong (total %zu)", cntp, want.size()));
            }
        }
        const arr_cmplx cc = dl::concatenate(c, d, c);
        bool ok = cc.size() == 2 * n1 + n2;
        for (int i = 0; ok && i < n1; ++i) {
            ok = (cc[i] == c[i]) && (cc[n1 + n2 + i] == c[i]);
        }
        for (int i = 0; ok && i < n2; ++i) {
            ok = (cc[n1 + i] == d[i]);
        }
        if (!ok) {
            vh::violation("C03/concatenate/cmplx", "concatenate(c,d,c) wrong");
        }
    }
    //zeropad
    {
        const int m = n1 + int(r.below(10));
        const arr_real z = dl::zeropad(a, m);
        const arr_cmplx zc = dl::zeropad(c, m);
        bool ok = z.size() == m && zc.size() == m;
        for (int i = 0; ok && i < m; ++i) {
            ok = (i < n1) ? (std::memcmp(&z[i], &a[i], 8) == 0 && zc[i] == c[i]) : (z[i] == 0 && zc[i].re == 0 && zc[i].im == 0);
        }
        if (!ok) {
            vh::violation("C03/zeropad", vh::fmt("zeropad(%d -> %d) wrong", n1, m));
        }
        if (n1 > 0 && try_call([&] { (void)dl::zeropad(a, n1 - 1); }) != Outcome::Threw) {
            vh::violation("C03/zeropad_shrink_not_rejected", vh::fmt("zeropad to a smaller size %d -> %d accepted", n1, n1 - 1));
        }
    }
}

int main(int argc, char** argv) {
    vh::init(argc, argv, "C03");
    const bool thorough = vh::g.thorough();
    const int nprog = thorough ? 200000 : 10000;
    for (int p = 0; p < nprog; ++p) {
        if (!vh::mine(p)) {
            continue;
        }
        vh::Rng r = vh::rng_for("prog", p);
        int n;
        const uint64_t sel = r.below(100);
        if (sel < 3) {
            n = 0;
        } else if (sel < 90) {
            n = int(r.range(1, 64));
        } else if (sel < 99) {
            n = int(r.range(65, 600));
        } else {
            n = int(r.range(601, 10000));
        }
        program(r, n, int(r.range(1, 6)));
        if (p % 4 == 0) {
            const bool wide = r.coin();
            const int m = int(r.below(40));
            selection(r, rnd_ar(r, m, wide), "arr_real");
            selection(r, rnd_ac(r, m, wide), "arr_cmplx");
            concat(r, wide);
        }
        if (p % 8 == 0) {
            //mismatched lengths, every array-array combination
            const int n1 = int(r.below(12));
            int n2 = int(r.below(12));
            if (n2 == n1) {
                n2 = n1 + 1 + int(r.below(3));
            }
            const Op op = Op(r.below(4));
            const arr_real a = rnd_ar(r, n1, false);
            const arr_real b = rnd_ar(r, n2, false);
            const arr_cmplx c = rnd_ac(r, n1, false);
            const arr_cmplx d = rnd_ac(r, n2, false);
            mismatch<false>(op, a, b);
            mismatch<false>(op, a, d);
            mismatch<false>(op, c, b);
            mismatch<false>(op, c, d);
            mismatch<true>(op, a, b);
            mismatch<true>(op, c, b);
            mismatch<true>(op, c, d);
        }
    }
    return vh::finish();
}
