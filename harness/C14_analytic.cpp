// C14 - analytic-signal and frequency-translation tools follow their definitions.
#include "dsp.h"

using namespace vd;
namespace dl = dsplib;

static void check_hilbert(int n, int kind, vh::Rng& r) {
    arr_real x(n);
    const char* kn[] = {"zero_mean_noise", "noise_with_dc", "dc_and_nyquist", "tone_on_bin", "tone_off_bin", "constant"};
    switch (kind) {
    case 0:
        x = gauss_real(r, n);
        {
            double m = 0;
            for (int i = 0; i < n; ++i) {
                m += x[i];
            }
            for (int i = 0; i < n; ++i) {
                x[i] -= m / n;
            }
        }
        break;
    case 1:
        x = gauss_real(r, n);
        for (int i = 0; i < n; ++i) {
            x[i] += 3.0;
        }
        break;
    case 2:
        for (int i = 0; i < n; ++i) {
            x[i] = 1.5 + ((i % 2) ? -0.7 : 0.7) + 0.1 * r.gauss();
        }
        break;
    case 3: {
        const int k = int(r.range(1, std::max(1, n / 2 - 1)));
        for (int i = 0; i < n; ++i) {
            x[i] = std::cos(2 * 3.14159265358979323846 * k * i / n + 0.3);
        }
        break;
    }
    case 4: {
        const double f = r.uni(0.01, 0.49);
        for (int i = 0; i < n; ++i) {
            x[i] = std::cos(2 * 3.14159265358979323846 * f * i + 1.1) + 0.25;
        }
        break;
    }
    default:
        for (int i = 0; i < n; ++i) {
            x[i] = -2.0;
        }
        break;
    }
    //the analytic signal is linear in x: a quarter of the inputs live at an extreme but legal level
    if (r.below(4) == 0) {
        x *= std::pow(10.0, r.uni(-250, 250));
        vh::obs_add("hilbert_inputs_at_extreme_level");
    }
    vh::begin_case("hilbert", "n=%d input=%s", n, kn[kind]);
    const arr_cmplx z = dl::hilbert(x);
    vh::Hasher hh;
    hh.s("hilbert").i(n).i(kind).u64(hash_arr(x));
    vh::count(hh.get(), true);
    const std::string cfg = vh::fmt("hilbert(x[%d], %s)", n, kn[kind]);
    const char* dck = (kind == 0 || kind == 3) ? "no_dc" : "with_dc";
    if (z.size() != n) {
        vh::violation("C14/hilbert/length", cfg + vh::fmt(": %d values", z.size()));
        return;
    }
    const ld mx = maxabs(x);
    ld worst = 0;
    int wi = 0;
    for (int i = 0; i < n; ++i) {
        const ld e = fabsl(ld(z[i].re) - x[i]);
        if (e > worst) {
            worst = e;
            wi = i;
        }
    }
    vh::obs_max("hilbert_real_part_err_over_n_eps", double(worst / (n * ref::EPS * mx)));
    if (!(worst <= 8 * n * ref::EPS * mx) || !all_finite(z)) {
        vh::violation(vh::fmt("C14/hilbert/real_part/%s", dck), cfg + vh::fmt(": Re z[%d]=%.17g but x[%d]=%.17g (|diff| %.3Le, allowed 8*n*eps*max|x| = %.3Le)", wi, z[wi].re, wi, x[wi], worst, 8 * n * ref::EPS * mx));
    }
    //spectrum vanishes on the negative-frequency bins
    const CV Z = ref::dft(to_ref(z), -1);
    const ld nz = ref::norm2(Z);
    ld neg = 0;
    for (int k = n / 2 + 1; k < n; ++k) {
        neg += ref::abs2(Z[k]);
    }
    neg = sqrtl(neg);
    vh::obs_max("hilbert_negative_bins_over_n_eps", double(neg / (n * ref::EPS * nz)));
    if (!(neg <= 32 * n * ref::EPS * nz)) {
        vh::violation(vh::fmt("C14/hilbert/negative_bins/%s", dck), cfg + vh::fmt(": energy on the negative-frequency bins %.3Le of %.3Le", neg, nz));
    }
    //hilbert(x, m) == hilbert(pad/truncate)
    for (int m : {n, n + 3, std::max(3, n - 2), 2 * n}) {
        arr_real xp(m);
        for (int i = 0; i < m && i < n; ++i) {
            xp[i] = x[i];
        }
        const arr_cmplx a = dl::hilbert(x, m);
        const arr_cmplx b = dl::hilbert(xp);
        if (a.size() != m || diff2(a, b) > 1e-12L * (norm2(b) + 1e-300L)) {
            vh::violation("C14/hilbert/n_argument", cfg + vh::fmt(": hilbert(x,%d) differs from hilbert of x padded/truncated to %d", m, m));
        }
    }
}

static void check_hilbert_filter(int flen, double tw, vh::Rng& r, int ntones) {
    dl::HilbertFilter probe(flen, tw);
    const int M = probe.impz().size();
    const int D = M / 2;
    const std::string cfg = vh::fmt("HilbertFilter(flen=%d, tw=%.4f) [M=%d]", flen, tw, M);
    if (M != ((flen % 2 == 0) ? flen + 1 : flen)) {
        vh::violation("C14/hilbert_filter/length", cfg + vh::fmt(": impulse response has %d taps", M));
    }
    //real part = input delayed by M/2 exactly (random input, random framing)
    {
        vh::begin_case("hilbert_filter_delay", "%s", cfg.c_str());
        const int N = 3 * M + 50;
        const arr_real x = gauss_real(r, N);
        dl::HilbertFilter f(flen, tw);
        arr_cmplx y;
        int pos = 0;
        while (pos < N) {
            const int len = std::min(N - pos, int(r.range(1, M)));
            arr_real in(len);
            for (int i = 0; i < len; ++i) {
                in[i] = x[pos + i];
            }
            y |= f.process(in);
            pos += len;
        }
        vh::Hasher hh;
        hh.s(cfg).u64(hash_arr(x));
        vh::count(hh.get(), true);
        bool ok = y.size() == N;
        int bad = -1;
        for (int i = 0; ok && i < N; ++i) {
            const double want = (i >= D) ? x[i - D] : 0.0;
            if (y[i].re != want) {
                ok = false;
                bad = i;
            }
        }
        if (!ok) {
            vh::violation("C14/hilbert_filter/real_part_delay", cfg + vh::fmt(": real part at sample %d is not the input delayed by M/2=%d samples", bad, D));
        }
    }
    //tones across the stated pass-band
    const double guard = std::max(2 * tw, 6.0 / M);
    if (guard >= 0.25) {
        vh::skip("hilbert_filter_passband_empty");
        return;
    }
    for (int t = 0; t < ntones; ++t) {
        const double f0 = (t == 0) ? guard : ((t == 1) ? 0.5 - guard : r.uni(guard, 0.5 - guard));
        const double A = std::pow(10.0, r.uni(-2.0, 2.0));
        const double ph = r.uni(-3, 3);
        const int N = 4 * M + 200;
        arr_real x(N);
        for (int i = 0; i < N; ++i) {
            x[i] = A * std::cos(2 * 3.14159265358979323846 * f0 * i + ph);
        }
        vh::begin_case("hilbert_filter_tone", "%s f0=%.5f", cfg.c_str(), f0);
        dl::HilbertFilter f(flen, tw);
        const arr_cmplx y = f.process(x);
        vh::Hasher hh;
        hh.s(cfg).d(f0).d(A);
        vh::count(hh.get(), true);
        ld worst = 0;
        for (int i = M; i < N; ++i) {
            const ld want = A * sinl(2 * ref::PI_L * ld(f0) * (i - D) + ph);
            worst = std::max(worst, fabsl(ld(y[i].im) - want));
        }
        vh::obs_max("hilbert_filter_quadrature_err_over_A", double(worst / A));
        vh::obs_add("hilbert_filter_tones");
        if (!(worst <= 1e-3L * A)) {
            vh::violation("C14/hilbert_filter/quadrature", cfg + vh::fmt(": tone at f=%.5f (guard %.5f): imaginary part deviates from the 90-degree shifted tone by %.3Le of the amplitude (allowed 1e-3)", f0, guard, worst / A));
        }
    }
}

static long g_tuner_cap = 400000;

static void check_tuner(int fs, double f, vh::Rng& r, int nper) {
    const std::string cfg = vh::fmt("Tuner(fs=%d, f=%.17g)", fs, f);
    vh::begin_case("tuner", "%s", cfg.c_str());
    const long total = std::min<long>(g_tuner_cap, long(fs) * nper + int(r.below(std::max(2, fs))));
    dl::Tuner t(fs, f);
    vh::Hasher hh;
    hh.s(cfg).i(total);
    vh::count(hh.get(), true);
    const bool integral = (std::floor(f) == f);
    long k = 0;
    ld worst = 0;
    while (k < total) {
        const int len = int(std::min<long>(total - k, r.range(1, 3000)));
        const arr_cmplx x = gauss_cmplx(r, len);
        const arr_cmplx y = t.process(x);
        if (y.size() != len) {
            vh::violation("C14/tuner/count", cfg + vh::fmt(": %d outputs for %d inputs", y.size(), len));
            return;
        }
        for (int i = 0; i < len; ++i, ++k) {
            //exp(2*pi*i*f*k/fs), phase reduced exactly in long double
            const ld cyc = ld(f) * ld(k) / ld(fs);
            const ld fr = cyc - floorl(cyc);
            const C w = ref::cis(2 * ref::PI_L * fr);
            const C want = C{x[i].re, x[i].im} * w;
            const ld e = ref::cabs(C{y[i].re, y[i].im} - want);
            const ld mag = hypotl(ld(x[i].re), ld(x[i].im));
            const ld tol = (1e-9L + 4 * ref::EPS * 2 * ref::PI_L * fabsl(ld(f)) * k / fs) * mag + 4 * ref::EPS * mag;
            if (mag > 0) {
                worst = std::max(worst, e / mag);
            }
            if (!(e <= tol)) {
                vh::violation(vh::fmt("C14/tuner/phase/%s", integral ? "integer_f" : "fractional_f"),
                              cfg + vh::fmt(": sample k=%ld of the stream is not multiplied by exp(2*pi*i*f*k/fs): |err|=%.3Le of |x|=%.3Le (k %s fs)", k, e, mag, k >= fs ? ">=" : "<"));
                return;
            }
        }
    }
    vh::obs_max("tuner_err_over_mag", double(worst));
    vh::obs_add(integral ? "tuner_streams_integer_f" : "tuner_streams_fractional_f");
    vh::obs_max("tuner_longest_stream_over_fs", double(total) / fs);
}

int main(int argc, char** argv) {
    vh::init(argc, argv, "C14");
    const bool thorough = vh::g.thorough();
    uint64_t idx = 0;
    //hilbert: lengths 3..4096 (quick: all to 300 + a residue class)
    const int full = thorough ? 4096 : 400;
    const int residue = int(vh::rng_for("residue").below(16));
    for (int n = 3; n <= 4096; ++n) {
        if (!(n <= full || n % 16 == residue || (thorough && n % 4 == 1))) {
            continue;
        }
        if (!vh::mine(idx++)) {
            continue;
        }
        vh::Rng r = vh::rng_for("hilbert", n);
        const int kinds = (n <= 600 || thorough) ? 6 : 2;
        for (int k = 0; k < kinds; ++k) {
            check_hilbert(n, (kinds == 6) ? k : int(r.below(6)), r);
        }
        vh::obs_add("hilbert_lengths");
    }
    vh::sample("hilbert(x): lengths 3.. odd and even, inputs with and without DC/Nyquist content; Re z == x, negative-frequency bins of the long-double DFT of z vanish, hilbert(x,n) == hilbert(pad/truncate)");
    //HilbertFilter
    {
        std::vector<int> flens = {31, 32, 51, 64, 101, 128, 201, 300, 401};
        std::vector<double> tws = {0.005, 0.01, 0.02, 0.05, 0.1};
        if (thorough) {
            flens = {21, 31, 32, 41, 51, 64, 75, 101, 128, 151, 201, 256, 300, 401, 501, 601};
            tws = {0.005, 0.0075, 0.01, 0.015, 0.02, 0.03, 0.05, 0.075, 0.1};
        }
        for (int fl : flens) {
            for (double tw : tws) {
                if (!vh::mine(idx++)) {
                    continue;
                }
                vh::Rng r = vh::rng_for("hf", uint64_t(fl) * 1000 + uint64_t(tw * 10000));
                check_hilbert_filter(fl, tw, r, thorough ? 48 : 12);
            }
        }
    }
    //Tuner
    {
        g_tuner_cap = thorough ? 2000000 : 400000;
        std::vector<int> fss = {8, 9, 16, 100, 1000, 8000, 44100, 65537, 96000, 100000, 192000, 1000000};
        for (int fs : fss) {
            const int nf = thorough ? 48 : 8;
            for (int j = 0; j < nf; ++j) {
                if (!vh::mine(idx++)) {
                    continue;
                }
                vh::Rng r = vh::rng_for("tuner", uint64_t(fs) * 100 + j);
                double f;
                switch (j % 4) {
                case 0:
                    f = double(r.range(-fs / 2, fs / 2));   //integer
                    break;
                case 1:
                    f = r.uni(-0.5 * fs, 0.5 * fs);          //fractional
                    break;
                case 2:
                    f = 0.5 * (double(r.range(-fs + 1, fs - 1)));   //half-integer
                    break;
                default:
                    f = (r.coin() ? 1.0 : -1.0) * double(fs / 2);   //band edge (the constructor admits |f| <= fs/2 in integer arithmetic)
                    break;
                }
                if (j >= 4 && (j % 4) <= 1) {
                    //a non-integer frequency very close to an integer (1e-9 .. 1e-4 away): the phase still advances by f/fs per sample for ever
                    const double base = double(r.range(-fs / 2 + 1, fs / 2 - 1));
                    f = base + (r.coin() ? 1.0 : -1.0) * std::pow(10.0, r.uni(-9, -4));
                }
                if (std::fabs(f) > double(fs / 2)) {
                    f = (f > 0 ? 1.0 : -1.0) * (double(fs / 2) - 0.25);   //keep f admissible for odd fs
                }
                check_tuner(fs, f, r, fs <= 1000 ? int(r.range(3, 9)) : 3);
            }
        }
    }
    vh::sample("Tuner(fs,f): integer, half-integer and random fractional f, streams of 3..9 x fs samples in random frames of 1..3000 samples; every sample compared with x[k]*exp(2*pi*i*f*k/fs)");
    return vh::finish();
}
