// C19 - noise injection and SNR/THD measurement are calibrated; random streams reproduce.
// Statistical monitors use explicit standard-error tolerances (6 sigma of the estimator).
#include "dsp.h"

using namespace vd;
namespace dl = dsplib;

static void check_awgn(int n, double snr, double sigdb, bool cplx, int sigkind, vh::Rng& r) {
    const double A = std::pow(10.0, sigdb / 20);
    const std::string cfg = vh::fmt("awgn(%s x[%d] %s, power %.0f dB, snr=%.1f dB)", cplx ? "complex" : "real", n, sigkind == 0 ? "tone" : (sigkind == 1 ? "broadband" : "two-level"), sigdb, snr);
    vh::begin_case("awgn", "%s", cfg.c_str());
    dl::rng(int(r.below(1000000)));
    arr_cmplx xc(n);
    const double f = r.uni(0.01, 0.45);
    for (int i = 0; i < n; ++i) {
        if (sigkind == 0) {
            xc[i] = cmplx_t{A * std::cos(2 * 3.141592653589793 * f * i), cplx ? A * std::sin(2 * 3.141592653589793 * f * i) : 0.0};
        } else if (sigkind == 1) {
            xc[i] = cmplx_t{A * r.gauss(), cplx ? A * r.gauss() : 0.0};
        } else {
            xc[i] = cmplx_t{(i % 7 < 3) ? A : -0.3 * A, cplx ? 0.5 * A : 0.0};
        }
    }
    vh::Hasher hh;
    hh.s(cfg).u64(hash_arr(xc));
    vh::count(hh.get(), true);
    //noise = y - x, components
    std::vector<ld> dre(n), dim(cplx ? n : 0);
    ld px = 0;
    if (cplx) {
        const arr_cmplx y = dl::awgn(xc, snr);
        if (y.size() != n) {
            vh::violation("C19/awgn/length", cfg + vh::fmt(": %d samples", y.size()));
            return;
        }
        for (int i = 0; i < n; ++i) {
            dre[i] = ld(y[i].re) - xc[i].re;
            dim[i] = ld(y[i].im) - xc[i].im;
            px += ld(xc[i].re) * xc[i].re + ld(xc[i].im) * xc[i].im;
        }
    } else {
        const arr_real xr = dl::real(xc);
        const arr_real y = dl::awgn(xr, snr);
        if (y.size() != n) {
            vh::violation("C19/awgn/length", cfg + vh::fmt(": %d samples", y.size()));
            return;
        }
        for (int i = 0; i < n; ++i) {
            dre[i] = ld(y[i]) - xr[i];
            px += ld(xr[i]) * xr[i];
        }
    }
    px /= n;
    const ld want = px * powl(10, -ld(snr) / 10);
    ld mre = 0, mim = 0, pw = 0;
    for (int i = 0; i < n; ++i) {
        mre += dre[i];
        pw += dre[i] * dre[i];
        if (cplx) {
            mim += dim[i];
            pw += dim[i] * dim[i];
        }
    }
    mre /= n;
    mim /= n;
    pw /= n;
    const char* ck = cplx ? "complex" : "real";
    //noise power: relative standard error sqrt(2/n) (real) / sqrt(1/n) (complex: 2n real Gaussians)
    const ld se = cplx ? sqrtl(ld(1) / n) : sqrtl(ld(2) / n);
    const ld rel = (pw - want) / want;
    vh::obs_max(std::string("awgn_power_dev_in_standard_errors_") + ck, double(fabsl(rel) / se));
    if (!(fabsl(rel) <= 6 * se)) {
        vh::violation(vh::fmt("C19/awgn/power/%s", ck), cfg + vh::fmt(": injected noise power %.6Le, requested P_x/10^(snr/10) = %.6Le (ratio %.4Lf = %+.2Lf dB; 6 standard errors = %.4Lf)", pw, want, pw / want, 10 * log10l(pw / want), 6 * se));
    }
    //zero mean: standard error sigma/sqrt(n) per component
    const ld sig_comp = sqrtl(want / (cplx ? 2 : 1));
    if (!(fabsl(mre) <= 6 * sig_comp / sqrtl(ld(n))) || (cplx && !(fabsl(mim) <= 6 * sig_comp / sqrtl(ld(n))))) {
        vh::violation(vh::fmt("C19/awgn/mean/%s", ck), cfg + vh::fmt(": noise mean (%.3Le, %.3Le), 6 standard errors = %.3Le", mre, mim, 6 * sig_comp / sqrtl(ld(n))));
    }
    //whiteness: lag 1..8 autocorrelation of the real component (and cross-correlation re/im for complex)
    ld v = 0;
    for (int i = 0; i < n; ++i) {
        v += (dre[i] - mre) * (dre[i] - mre);
    }
    for (int lag = 1; lag <= 8; ++lag) {
        ld c = 0;
        for (int i = lag; i < n; ++i) {
            c += (dre[i] - mre) * (dre[i - lag] - mre);
        }
        const ld rho = c / v;
        vh::obs_max("awgn_autocorr_in_standard_errors", double(fabsl(rho) * sqrtl(ld(n))));
        if (!(fabsl(rho) <= 6 / sqrtl(ld(n)))) {
            vh::violation(vh::fmt("C19/awgn/not_white/%s", ck), cfg + vh::fmt(": lag-%d autocorrelation of the noise %.5Lf (6/sqrt(n) = %.5Lf)", lag, rho, 6 / sqrtl(ld(n))));
            break;
        }
    }
    if (cplx) {
        ld c = 0, vi = 0;
        for (int i = 0; i < n; ++i) {
            c += (dre[i] - mre) * (dim[i] - mim);
            vi += (dim[i] - mim) * (dim[i] - mim);
        }
        const ld rho = c / sqrtl(v * vi);
        if (!(fabsl(rho) <= 6 / sqrtl(ld(n)))) {
            vh::violation("C19/awgn/components_correlated", cfg + vh::fmt(": real and imaginary noise components correlate with %.5Lf", rho));
        }
        //both components carry the same power
        const ld ratio = v / vi;
        if (!(fabsl(ratio - 1) <= 6 * sqrtl(ld(4) / n))) {
            vh::violation("C19/awgn/component_power_imbalance", cfg + vh::fmt(": power ratio of the real and imaginary noise components %.4Lf", ratio));
        }
    }
    //Gaussianity: 4th standardised moment of the real component
    ld m4 = 0;
    for (int i = 0; i < n; ++i) {
        const ld t = dre[i] - mre;
        m4 += t * t * t * t;
    }
    const ld kurt = (m4 / n) / ((v / n) * (v / n));
    vh::obs_max("awgn_kurtosis_dev_in_standard_errors", double(fabsl(kurt - 3) / sqrtl(ld(24) / n)));
    if (!(fabsl(kurt - 3) <= 6 * sqrtl(ld(24) / n))) {
        vh::violation(vh::fmt("C19/awgn/not_gaussian/%s", ck), cfg + vh::fmt(": 4th standardised moment of the noise %.4Lf (expected 3 +- %.4Lf)", kurt, 6 * sqrtl(ld(24) / n)));
    }
    vh::obs_add(cplx ? "awgn_cases_complex" : "awgn_cases_real");
}

static void check_thd(int n, vh::Rng& r) {
    int nfft = 1;
    while (nfft < n) {
        nfft <<= 1;
    }
    const double binw = 1.0 / nfft;
    const int nh = int(r.range(1, 5));   //number of harmonics above the fundamental
    //fundamental so that all nh+1 components are < 0.5 - 100 bins and >= 100 bins apart
    const double fmaxv = (0.5 - 110 * binw) / (nh + 1);
    const double fminv = 110 * binw;
    if (fmaxv <= fminv * 1.05) {
        vh::skip("thd_signal_too_short_for_100_bin_separation");
        return;
    }
    const double f0 = r.uni(fminv, fmaxv);
    const bool onbin = r.coin();
    const double f0u = onbin ? std::round(f0 * nfft) / nfft : f0;
    const double A = std::pow(10.0, r.uni(-40, 40) / 20);
    std::vector<double> dbc(nh), ph(nh + 1);
    arr_real x(n);
    ld hsum = 0;
    for (int k = 0; k < nh; ++k) {
        dbc[k] = -r.uni(10, 40);
        hsum += powl(10, ld(dbc[k]) / 10);
    }
    for (int k = 0; k <= nh; ++k) {
        ph[k] = r.uni(-3, 3);
    }
    for (int i = 0; i < n; ++i) {
        long double s = cosl(2 * ref::PI_L * f0u * i + ph[0]);
        for (int k = 0; k < nh; ++k) {
            s += powl(10, (long double)dbc[k] / 20) * cosl(2 * ref::PI_L * f0u * (k + 2) * i + ph[k + 1]);
        }
        x[i] = double(A * s);
    }
    const std::string cfg = vh::fmt("tone f0=%.6f (%s-bin) with %d harmonics at %s dBc, n=%d (nfft %d), amplitude %.1f dB", f0u, onbin ? "on" : "off", nh,
                                    [&] {
                                        std::string s;
                                        for (int k = 0; k < nh; ++k) {
                                            s += vh::fmt("%s%.1f", k ? "," : "", dbc[k]);
                                        }
                                        return s;
                                    }()
                                      .c_str(),
                                    n, nfft, 20 * std::log10(A));
    vh::begin_case("thd", "%s", cfg.c_str());
    vh::Hasher hh;
    hh.s(cfg);
    vh::count(hh.get(), true);
    const auto t = dl::thd(x, nh + 1);
    const ld want_thd = 10 * log10l(hsum);
    vh::obs_max("thd_err_db", double(fabsl(ld(t.value) - want_thd)));
    if (!(fabsl(ld(t.value) - want_thd) <= 0.1L)) {
        vh::violation("C19/thd/value", cfg + vh::fmt(": thd = %.4f dB, harmonic-to-fundamental power ratio = %.4Lf dB", t.value, want_thd));
    }
    if (t.harmfreq.size() != nh + 1 || t.harmpow.size() != nh + 1) {
        vh::violation("C19/thd/sizes", cfg + vh::fmt(": harmfreq/harmpow have %d/%d entries", t.harmfreq.size(), t.harmpow.size()));
    } else {
        for (int k = 0; k <= nh; ++k) {
            const double wf = f0u * (k + 1);
            const double dev_bins = std::fabs(t.harmfreq[k] - wf) / binw;
            vh::obs_max("thd_freq_err_bins", dev_bins);
            if (!(dev_bins <= 0.1)) {
                vh::violation("C19/thd/frequency", cfg + vh::fmt(": component %d reported at %.8f, true %.8f (%.3f bins off)", k + 1, t.harmfreq[k], wf, dev_bins));
                break;
            }
            if (k >= 1) {
                const double rel = t.harmpow[k] - t.harmpow[0];
                if (!(std::fabs(rel - dbc[k - 1]) <= 0.1)) {
                    vh::violation("C19/thd/harmonic_power", cfg + vh::fmt(": harmonic %d at %.3f dBc, true %.3f dBc", k + 1, rel, dbc[k - 1]));
                    break;
                }
            }
        }
    }
    const double sd = dl::sinad(x);
    vh::obs_max("sinad_err_db", double(fabsl(ld(sd) + want_thd)));
    if (!(fabsl(ld(sd) + want_thd) <= 1.5L)) {
        vh::violation("C19/sinad/value", cfg + vh::fmt(": sinad = %.3f dB, fundamental-to-distortion ratio = %.3Lf dB", sd, -want_thd));
    }
    //scale invariance
    const double sc = std::pow(10.0, r.uni(-40, 40) / 20);
    const arr_real xs = x * sc;
    const double d1 = std::fabs(dl::thd(xs, nh + 1).value - t.value);
    const double d2 = std::fabs(dl::sinad(xs) - sd);
    //snr of a noise-free signal only measures rounding noise (hundreds of dB, ill-conditioned); its scale invariance is
    //judged on the same tone with white noise 40..80 dB below it
    arr_real xn = x;
    const double nlev = A * std::pow(10.0, -r.uni(40, 80) / 20);
    for (int i = 0; i < n; ++i) {
        xn[i] += nlev * r.gauss();
    }
    const double s0 = dl::snr(xn, nh + 1);
    const double d3 = std::fabs(dl::snr(xn * sc, nh + 1) - s0);
    vh::obs_max("scale_invariance_dev_db", std::max(d1, std::max(d2, std::isfinite(d3) ? d3 : 0.0)));
    if (!(d1 <= 1e-3) || !(d2 <= 1e-3) || !(d3 <= 1e-3)) {
        vh::violation("C19/scale_invariance", cfg + vh::fmt(": scaling by %.3e changes thd by %.2e dB, sinad by %.2e dB, snr by %.2e dB", sc, d1, d2, d3));
    }
    vh::obs_add("thd_cases");
}

//the `aliased` option: a fundamental high in the band whose harmonics lie beyond Nyquist (up to 6*f0 > 2*fs) and fold back; the folded
//components are kept 110 bins away from each other, from DC and from Nyquist, and thd(x, nharm, true) must find them where they fold to
static void check_thd_aliased(int n, vh::Rng& r) {
    int nfft = 1;
    while (nfft < n) {
        nfft <<= 1;
    }
    const double binw = 1.0 / nfft;
    const int nharm = int(r.range(3, 6));   //components 1..nharm
    double f0 = 0;
    std::vector<double> fa(nharm);
    bool found = false;
    for (int attempt = 0; attempt < 400 && !found; ++attempt) {
        f0 = r.uni(0.26, 0.47);
        found = true;
        for (int k = 1; k <= nharm && found; ++k) {
            const double f = k * f0;
            const double fr = f - std::floor(f);
            fa[k - 1] = (fr <= 0.5) ? fr : 1.0 - fr;
            if (fa[k - 1] < 110 * binw || fa[k - 1] > 0.5 - 110 * binw) {
                found = false;
            }
            for (int j = 0; j < k - 1 && found; ++j) {
                if (std::fabs(fa[j] - fa[k - 1]) < 110 * binw) {
                    found = false;
                }
            }
        }
    }
    if (!found) {
        vh::skip("thd_aliased_no_admissible_fundamental");
        return;
    }
    const double A = std::pow(10.0, r.uni(-40, 40) / 20);
    std::vector<double> dbc(nharm, 0.0);
    ld hsum = 0;
    for (int k = 1; k < nharm; ++k) {
        dbc[k] = -r.uni(10, 40);
        hsum += powl(10, ld(dbc[k]) / 10);
    }
    arr_real x(n);
    std::vector<double> ph(nharm);
    for (int k = 0; k < nharm; ++k) {
        ph[k] = r.uni(-3, 3);
    }
    for (int i = 0; i < n; ++i) {
        long double s = 0;
        for (int k = 0; k < nharm; ++k) {
            //phase reduced modulo 1 in long double before the cosine: harmonic k+1 at (k+1)*f0 cycles per sample
            const long double cyc = fmodl((long double)(k + 1) * (long double)f0 * i, 1.0L);
            s += powl(10, (long double)dbc[k] / 20) * cosl(2 * ref::PI_L * cyc + ph[k]);
        }
        x[i] = double(A * s);
    }
    const std::string cfg = vh::fmt("tone f0=%.6f with harmonics up to %d*f0=%.4f (aliased=true), n=%d (nfft %d), amplitude %.1f dB", f0, nharm, nharm * f0, n, nfft, 20 * std::log10(A));
    vh::begin_case("thd_aliased", "%s", cfg.c_str());
    vh::Hasher hh;
    hh.s(cfg);
    vh::count(hh.get(), true);
    vh::obs_add(nharm * f0 >= 2.0 ? "thd_aliased_cases_beyond_two_fs" : "thd_aliased_cases");
    const auto t = dl::thd(x, nharm, true);
    const ld want_thd = 10 * log10l(hsum);
    if (!(fabsl(ld(t.value) - want_thd) <= 0.1L)) {
        vh::violation("C19/thd_aliased/value", cfg + vh::fmt(": thd = %.4f dB, harmonic-to-fundamental power ratio = %.4Lf dB", t.value, want_thd));
        return;
    }
    if (t.harmfreq.size() != nharm) {
        vh::violation("C19/thd_aliased/sizes", cfg + vh::fmt(": harmfreq has %d entries", t.harmfreq.size()));
        return;
    }
    for (int k = 0; k < nharm; ++k) {
        const double dev_bins = std::fabs(t.harmfreq[k] - fa[k]) / binw;
        if (!(dev_bins <= 0.1)) {
            vh::violation("C19/thd_aliased/frequency", cfg + vh::fmt(": component %d reported at %.8f, folds to %.8f (%.3f bins off)", k + 1, t.harmfreq[k], fa[k], dev_bins));
            return;
        }
    }
}

static std::vector<double> script(int seed, vh::Rng r) {
    std::vector<double> v;
    dl::rng(seed);
    const int steps = int(r.range(5, 30));
    for (int s = 0; s < steps; ++s) {
        switch (r.below(8)) {
        case 0:
            v.push_back(dl::rand());
            break;
        case 1:
            v.push_back(dl::randn());
            break;
        case 2: {
            const int lo = int(r.range(-50, 50));
            const int hi = lo + int(r.below(20));
            const int k = dl::randi({lo, hi});
            v.push_back(k);
            v.push_back((k >= lo && k <= hi) ? 0 : 1e99);
            break;
        }
        case 3: {
            const arr_real a = dl::rand(int(r.range(0, 9)));
            for (int i = 0; i < a.size(); ++i) {
                v.push_back(a[i]);
                v.push_back((a[i] >= 0 && a[i] < 1) ? 0 : 1e99);
            }
            break;
        }
        case 4: {
            const arr_real a = dl::randn(int(r.range(0, 9)));
            for (int i = 0; i < a.size(); ++i) {
                v.push_back(a[i]);
            }
            break;
        }
        case 5: {
            const int imax = int(r.range(1, 100));
            const dl::arr_int a = dl::randi(imax, int(r.range(0, 9)));
            for (int i = 0; i < a.size(); ++i) {
                v.push_back(a[i]);
                v.push_back((a[i] >= 1 && a[i] <= imax) ? 0 : 1e99);
            }
            v.push_back(dl::randi(imax));
            break;
        }
        case 6: {
            const arr_real a = dl::awgn(dl::ones(5), 10.0);
            for (int i = 0; i < a.size(); ++i) {
                v.push_back(a[i]);
            }
            arr_cmplx c(3);
            c[0] = cmplx_t{1, 1};
            const arr_cmplx b = dl::awgn(c, 3.0);
            for (int i = 0; i < b.size(); ++i) {
                v.push_back(b[i].re);
                v.push_back(b[i].im);
            }
            break;
        }
        default: {
            const double lo = r.uni(-5, 5);
            const arr_real a = dl::rand({lo, lo + 2.0}, 4);
            for (int i = 0; i < a.size(); ++i) {
                v.push_back(a[i]);
                v.push_back((a[i] >= lo && a[i] <= lo + 2.0) ? 0 : 1e99);
            }
            const int one = dl::randi({7, 7});
            v.push_back(one == 7 ? 0 : 1e99);
            const dl::arr_int neg = dl::randi({-9, -3}, 5);
            for (int i = 0; i < neg.size(); ++i) {
                v.push_back((neg[i] >= -9 && neg[i] <= -3) ? 0 : 1e99);
            }
            break;
        }
        }
    }
    return v;
}

int main(int argc, char** argv) {
    vh::init(argc, argv, "C19");
    const bool thorough = vh::g.thorough();
    uint64_t idx = 0;
    //awgn
    {
        const int cnt = thorough ? 3200 : 256;
        for (int t = 0; t < cnt; ++t) {
            if (!vh::mine(idx++)) {
                continue;
            }
            vh::Rng r = vh::rng_for("awgn", t);
            const int n = (t % 8 == 0) ? (thorough ? 1000000 : 100000) : int(std::exp(r.uni(std::log(1e4), std::log(thorough ? 3e5 : 1e5))));
            const double snr = r.uni(-10, 80);
            const double sigdb = r.uni(-60, 60);
            check_awgn(n, snr, sigdb, (t % 2) == 1, t % 3, r);
        }
    }
    vh::sample("awgn: n = 1e4..1e5 (quick) / 1e6 (thorough), snr -10..80 dB, signal power over 120 dB, tones / broadband / two-level, real and complex: power, mean, lag-1..8 autocorrelation, kurtosis within 6 standard errors");
    //thd / sinad / snr
    {
        const int cnt = thorough ? 6000 : 400;
        for (int t = 0; t < cnt; ++t) {
            if (!vh::mine(idx++)) {
                continue;
            }
            vh::Rng r = vh::rng_for("thd", t);
            const int n = (t % 3 == 0) ? (1 << int(r.range(11, 17))) : int(r.range(2048, 131072));
            check_thd(n, r);
            if (t % 2 == 0) {
                check_thd_aliased(n, r);
            }
        }
    }
    //reproducibility: seeds 0..3000 / 0..20000
    {
        const int step = thorough ? 1 : 7;
        const int maxseed = thorough ? 20000 : 3000;
        for (int seed = 0; seed <= maxseed; seed += step) {
            if (!vh::mine(idx++)) {
                continue;
            }
            vh::begin_case("reproduce", "seed=%d", seed);
            vh::Rng r = vh::rng_for("script", seed);
            const auto a = script(seed, r);
            //disturb the generator, then replay
            dl::rng(seed + 12345);
            (void)dl::randn(17);
            const auto b = script(seed, r);
            vh::Hasher hh;
            hh.s("repro").i(seed);
            vh::count(hh.get(), true);
            vh::obs_add("replayed_scripts");
            bool same = a.size() == b.size();
            for (size_t i = 0; same && i < a.size(); ++i) {
                same = std::memcmp(&a[i], &b[i], sizeof(double)) == 0;
            }
            if (!same) {
                vh::violation("C19/reproducibility", vh::fmt("after rng(%d) the interleaved rand/randn/randi/awgn script did not replay the same values", seed));
            }
            for (double v : a) {
                if (v == 1e99) {
                    vh::violation("C19/random_range", vh::fmt("seed %d: a uniform / integer draw left its inclusive bounds", seed));
                    break;
                }
            }
        }
    }
    return vh::finish();
}
