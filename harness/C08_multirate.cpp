// C08 - multirate converters equal the zero-stuff / filter / decimate definition; resample() approximates the
// band-limited signal.
#include "dsp.h"

#include <memory>
#include <numeric>

using namespace vd;
namespace dl = dsplib;

//v = zero-stuff(x, L) * (h * L / sum(h)), long double; returns v of length len*L + nh
static RV chain_ref(const arr_real& x, const arr_real& h, int L) {
    const int n = x.size();
    const int nh = h.size();
    ld sh = 0;
    for (int i = 0; i < nh; ++i) {
        sh += h[i];
    }
    RV g(nh);
    for (int i = 0; i < nh; ++i) {
        g[i] = ld(h[i]) * L / sh;
    }
    RV v(size_t(n) * L + nh, 0);
    for (int i = 0; i < n; ++i) {
        const ld xi = x[i];
        if (xi == 0) {
            continue;
        }
        for (int k = 0; k < nh; ++k) {
            v[size_t(i) * L + k] += xi * g[k];
        }
    }
    return v;
}

static ld sumabs_g(const arr_real& h, int L) {
    ld sh = 0, sa = 0;
    for (int i = 0; i < h.size(); ++i) {
        sh += h[i];
        sa += fabsl(ld(h[i]));
    }
    return sa * L / fabsl(sh);
}

struct Conv
{
    std::string kind;
    int L, M;
    arr_real h;
    bool default_h;
    std::function<std::shared_ptr<dl::IResampler>()> make;
};

static arr_real sym_h(vh::Rng& r, int n) {
    arr_real h(n);
    for (int i = 0; i < (n + 1) / 2; ++i) {
        h[i] = h[n - 1 - i] = 0.3 + r.uni() + 0.3 * r.gauss() * 0.3;
    }
    return h;
}

static arr_real run_frames(dl::IResampler& c, const arr_real& x, const std::vector<int>& frames) {
    arr_real y;
    int pos = 0;
    for (int f : frames) {
        arr_real in(f);
        for (int i = 0; i < f; ++i) {
            in[i] = x[pos + i];
        }
        y |= c.process(in);
        pos += f;
    }
    return y;
}

static void check_conv(const Conv& cv, vh::Rng& r, bool thorough) {
    const int L = cv.L;
    const int M = cv.M;
    const int nh = cv.h.size();
    const std::string cfg = vh::fmt("%s L=%d M=%d %s nh=%d", cv.kind.c_str(), L, M, cv.default_h ? "default design" : "custom symmetric h", nh);
    vh::begin_case(cv.kind.c_str(), "%s", cfg.c_str());
    const ld sg = sumabs_g(cv.h, L);
    const char* hk = cv.default_h ? "default_h" : "custom_h";

    //---- calibration: find the single phase c
    const int nblocks = (3 * nh) / (L * M) + 2 * nh / std::max(1, M) / std::max(1, L) + 24;
    const int nx0 = nblocks * M;
    arr_real x0 = gauss_real(r, nx0);
    auto c0 = cv.make();
    const arr_real y0 = c0->process(x0);
    vh::Hasher hh;
    hh.s(cfg).u64(hash_arr(cv.h));
    vh::count(hh.get(), true);
    const long want0 = long(nx0) * L / M;
    if (y0.size() != want0) {
        vh::violation(vh::fmt("C08/%s/count", cv.kind.c_str()), cfg + vh::fmt(": %d inputs produced %d outputs, expected len*L/M=%ld", nx0, y0.size(), want0));
        return;
    }
    if (c0->interp_rate() != L || c0->decim_rate() != M) {
        vh::violation(vh::fmt("C08/%s/rates", cv.kind.c_str()), cfg + vh::fmt(": interp_rate()=%d decim_rate()=%d", c0->interp_rate(), c0->decim_rate()));
    }
    const RV v0 = chain_ref(x0, cv.h, L);
    const ld tol0 = 16 * ref::EPS * sg * maxabs(x0);
    std::vector<long> fits;
    ld best = 1e300L;
    long bestc = 0;
    const long cmax = 3L * nh + 2L * L * M;
    for (long c = -cmax; c <= cmax; ++c) {
        ld worst = 0;
        for (int i = 0; i < y0.size(); ++i) {
            const long k = long(i) * M + c;
            const ld ref_v = (k >= 0 && k < long(v0.size())) ? v0[k] : 0;
            const ld e = fabsl(ld(y0[i]) - ref_v);
            if (e > worst) {
                worst = e;
                if (worst > best && worst > tol0) {
                    break;
                }
            }
        }
        if (worst < best) {
            best = worst;
            bestc = c;
        }
        if (worst <= tol0) {
            fits.push_back(c);
        }
    }
    vh::obs_max("calibration_residual_over_tol", double(best / tol0));
    if (fits.empty()) {
        vh::violation(vh::fmt("C08/%s/no_phase/%s", cv.kind.c_str(), hk),
                      cfg + vh::fmt(": no integer phase c with y[i]=v[i*M+c]; best c=%ld leaves residual %.3Le (tol 16*eps*sum|g|*max|x| = %.3Le)", bestc, best, tol0));
        return;
    }
    if (fits.size() > 1) {
        vh::skip("calibration_phase_not_unique");
        return;
    }
    const long c = fits[0];
    vh::obs_add(vh::fmt("phase_found_%s", cv.kind.c_str()));
    if (cv.kind == "FIRRateConverter" && L == 3 && M == 2) {
        vh::sample(cfg + vh::fmt(": phase c=%ld, delay()=%d, calibration residual %.2Le", c, c0->delay(), best));
    }

    //---- every other input, framing and call uses the same c
    const int ninputs = thorough ? 6 : 3;
    for (int t = 0; t < ninputs; ++t) {
        const int nb = int(r.range(3, 40)) + nh / std::max(1, L * M);
        const int nx = nb * M;
        arr_real x(nx);
        const int kind = t % 3;
        if (kind == 0) {
            x = gauss_real(r, nx);
        } else if (kind == 1) {
            x[int(r.below(nx))] = 1.0;
            x[int(r.below(nx))] += -2.5;
        } else {
            //swept tone
            double ph = 0;
            for (int i = 0; i < nx; ++i) {
                ph += 2 * 3.141592653589793 * (0.01 + 0.4 * i / nx);
                x[i] = std::sin(ph);
            }
        }
        //random framing in multiples of M
        std::vector<int> frames;
        int left = nb;
        while (left > 0) {
            const int g = std::min(left, int(r.range(1, 6)));
            frames.push_back(g * M);
            left -= g;
        }
        auto ci = cv.make();
        const arr_real y = run_frames(*ci, x, frames);
        vh::begin_case(cv.kind.c_str(), "%s input=%d nx=%d frames=%zu", cfg.c_str(), kind, nx, frames.size());
        vh::Hasher h2;
        h2.s(cfg).i(t).u64(hash_arr(x));
        vh::count(h2.get(), true);
        if (y.size() != long(nx) * L / M) {
            vh::violation(vh::fmt("C08/%s/count", cv.kind.c_str()), cfg + vh::fmt(": %d inputs in %zu frames produced %d outputs", nx, frames.size(), y.size()));
            continue;
        }
        const RV v = chain_ref(x, cv.h, L);
        const ld tol = 16 * ref::EPS * sg * std::max<ld>(maxabs(x), 1e-300L);
        for (int i = 0; i < y.size(); ++i) {
            const long k = long(i) * M + c;
            const ld ref_v = (k >= 0 && k < long(v.size())) ? v[k] : 0;
            const ld e = fabsl(ld(y[i]) - ref_v);
            if (!(e <= tol)) {
                vh::violation(vh::fmt("C08/%s/value/%s", cv.kind.c_str(), hk),
                              cfg + vh::fmt(": input kind %d, %zu frames: y[%d]=%.17g but chain sample v[%ld]=%.17Lg (phase c=%ld fixed by calibration), |err|=%.3Le > %.3Le", kind, frames.size(), i, y[i], k,
                                            ref_v, c, e, tol));
                break;
            }
        }
        vh::obs_add("outputs_judged", y.size());
    }

    //---- frame lengths that are not a multiple of M must be rejected, and the object stays usable
    if (M > 1) {
        auto ci = cv.make();
        const int badlen = M * 2 + 1 + int(r.below(M - 1));
        std::string what;
        const auto oc = try_call([&] { (void)ci->process(gauss_real(r, badlen)); }, &what);
        vh::obs_add("non_multiple_frames");
        if (oc != Outcome::Threw) {
            vh::violation(vh::fmt("C08/%s/non_multiple_accepted", cv.kind.c_str()), cfg + vh::fmt(": frame of %d samples (not a multiple of M=%d) was accepted", badlen, M));
        }
        //a rejected frame is not input: accepted frames before and after it must still give the chain of the accepted stream
        auto cj = cv.make();
        const int nb1 = int(r.range(2, 12)) + nh / std::max(1, L * M);
        const int nb2 = int(r.range(2, 12)) + nh / std::max(1, L * M);
        const arr_real xa = gauss_real(r, (nb1 + nb2) * M);
        arr_real x1(nb1 * M), x2(nb2 * M);
        for (int i = 0; i < nb1 * M; ++i) {
            x1[i] = xa[i];
        }
        for (int i = 0; i < nb2 * M; ++i) {
            x2[i] = xa[nb1 * M + i];
        }
        vh::begin_case(cv.kind.c_str(), "%s rejected frame of %d samples between accepted frames", cfg.c_str(), badlen);
        arr_real ya = cj->process(x1);
        bool threw = false;
        try {
            (void)cj->process(gauss_real(r, badlen) * 3.0);
        } catch (const std::exception&) {
            threw = true;
        }
        if (threw) {
            ya |= cj->process(x2);
            vh::Hasher h3;
            h3.s(cfg).s("rejected_between").u64(hash_arr(xa));
            vh::count(h3.get(), true);
            vh::obs_add("rejected_frames_between_accepted_ones");
            const RV va = chain_ref(xa, cv.h, L);
            const ld tola = 16 * ref::EPS * sg * std::max<ld>(maxabs(xa), 1e-300L);
            bool ok = (ya.size() == long(xa.size()) * L / M);
            int bad = -1;
            for (int i = 0; ok && i < ya.size(); ++i) {
                const long k = long(i) * M + c;
                const ld ref_v = (k >= 0 && k < long(va.size())) ? va[k] : 0;
                if (!(fabsl(ld(ya[i]) - ref_v) <= tola)) {
                    ok = false;
                    bad = i;
                }
            }
            if (!ok) {
                vh::violation(vh::fmt("C08/%s/state_changed_by_rejected_frame", cv.kind.c_str()),
                              cfg + vh::fmt(": after a rejected frame of %d samples the outputs of the accepted stream no longer follow the chain (first bad output %d of %d)", badlen, bad, ya.size()));
            }
        }
    }
}

//------------------------------------------------------------------------------------------------
static void check_resample(int p_, int q_, int len, vh::Rng& r) {
    const int g = std::gcd(p_, q_);
    const int p = p_ / g;
    const int q = q_ / g;
    vh::begin_case("resample", "p=%d q=%d len=%d", p_, q_, len);
    vh::Hasher hh;
    hh.s("resample").i(p_).i(q_).i(len);
    vh::count(hh.get(), true);
    const std::string cfg = vh::fmt("resample(x[%d], %d, %d)", len, p_, q_);
    const char* rk = (p == q) ? "p=q" : (p > q ? "up" : "down");
    //1..3 tones in the lower quarter of the pass-band [0.05, 0.25]*min(1,p/q)*Nyquist: the statement only says
    //"approximating the band-limited signal", so amplitude is judged where any sane anti-alias design is flat
    const int nt = int(r.range(1, 3));
    const double fmax = 0.25 * 0.5 * std::min(1.0, double(p) / q);
    std::vector<double> f(nt), A(nt), ph(nt);
    for (int k = 0; k < nt; ++k) {
        f[k] = r.uni(0.2 * fmax, fmax);
        A[k] = r.uni(0.3, 1.0);
        ph[k] = r.uni(-3.0, 3.0);
    }
    arr_real x(len);
    for (int i = 0; i < len; ++i) {
        double s = 0;
        for (int k = 0; k < nt; ++k) {
            s += A[k] * std::cos(2 * 3.14159265358979323846 * f[k] * i + ph[k]);
        }
        x[i] = s;
    }
    arr_real y;
    std::string what;
    const auto oc = try_call([&] { y = dl::resample(x, p_, q_); }, &what);
    if (oc != Outcome::Returned) {
        vh::violation(vh::fmt("C08/resample/threw/%s", rk), cfg + ": threw: " + what);
        return;
    }
    const long want = (p == q) ? len : long(p) * ((len + q - 1) / q);
    if (y.size() != want) {
        vh::violation(vh::fmt("C08/resample/length/%s", rk), cfg + vh::fmt(": returned %d samples, expected p'*ceil(len/q')=%ld", y.size(), want));
        return;
    }
    if (p == q) {
        if (!bit_equal(x, y)) {
            vh::violation("C08/resample/identity", cfg + ": p==q must return x itself");
        }
        vh::obs_add("resample_identity_cases");
        return;
    }
    //middle region (default n=10: filter half length n*R in the up-sampled domain)
    const int R = (p > 1) ? p : q;
    const int margin = 2 * 10 * R / q + 6;
    const int i0 = margin;
    const int i1 = int(std::min<long>(y.size(), (long(len) * p) / q)) - margin;
    if (i1 - i0 < 8 * nt + 16) {
        vh::skip("resample_signal_too_short_for_accuracy_check");
        return;
    }
    //least squares fit of each tone's quadrature components
    const int m = 2 * nt;
    std::vector<std::vector<ld>> G(m, std::vector<ld>(m + 1, 0));
    for (int i = i0; i < i1; ++i) {
        std::vector<ld> row(m);
        const ld t = ld(i) * q / p;
        for (int k = 0; k < nt; ++k) {
            row[2 * k] = cosl(2 * ref::PI_L * f[k] * t);
            row[2 * k + 1] = sinl(2 * ref::PI_L * f[k] * t);
        }
        for (int a = 0; a < m; ++a) {
            for (int b = 0; b < m; ++b) {
                G[a][b] += row[a] * row[b];
            }
            G[a][m] += row[a] * y[i];
        }
    }
    //gaussian elimination
    bool singular = false;
    for (int a = 0; a < m; ++a) {
        int piv = a;
        for (int b = a + 1; b < m; ++b) {
            if (fabsl(G[b][a]) > fabsl(G[piv][a])) {
                piv = b;
            }
        }
        std::swap(G[a], G[piv]);
        if (fabsl(G[a][a]) < 1e-9L) {
            singular = true;
            break;
        }
        for (int b = 0; b < m; ++b) {
            if (b == a) {
                continue;
            }
            const ld fct = G[b][a] / G[a][a];
            for (int cc = a; cc <= m; ++cc) {
                G[b][cc] -= fct * G[a][cc];
            }
        }
    }
    if (singular) {
        vh::skip("resample_fit_singular");
        return;
    }
    ld tau_num = 0, tau_den = 0;
    ld sumA = 0;
    for (int k = 0; k < nt; ++k) {
        const ld a = G[2 * k][m] / G[2 * k][2 * k];
        const ld b = G[2 * k + 1][m] / G[2 * k + 1][2 * k + 1];
        //a cos(wt) + b sin(wt) = Ak cos(wt + phi'), phi' = atan2(-b, a)
        const ld phi = atan2l(-b, a);
        ld dphi = phi - ph[k];
        while (dphi > ref::PI_L) {
            dphi -= 2 * ref::PI_L;
        }
        while (dphi < -ref::PI_L) {
            dphi += 2 * ref::PI_L;
        }
        const ld tau = dphi / (2 * ref::PI_L * f[k]);
        tau_num += A[k] * tau;
        tau_den += A[k];
        sumA += A[k];
    }
    const ld tau = tau_num / tau_den;   //in input samples
    const ld tau_out = tau * p / q;     //in output samples
    vh::obs_max("resample_abs_tau_output_samples", double(fabsl(tau_out)));
    if (!(fabsl(tau_out) <= 1.0L + 1e-6L)) {
        vh::violation(vh::fmt("C08/resample/alignment/%s", rk), cfg + vh::fmt(": output is shifted by %.4Lf output samples against times i*q/p (allowed: 1)", tau_out));
        return;
    }
    ld worst = 0;
    for (int i = i0; i < i1; ++i) {
        const ld t = ld(i) * q / p + tau;
        ld s = 0;
        for (int k = 0; k < nt; ++k) {
            s += A[k] * cosl(2 * ref::PI_L * f[k] * t + ph[k]);
        }
        worst = std::max(worst, fabsl(ld(y[i]) - s));
    }
    vh::obs_max("resample_residual_over_amplitude", double(worst / sumA));
    vh::obs_add("resample_accuracy_cases");
    if (!(worst <= 0.05L * sumA)) {
        vh::violation(vh::fmt("C08/resample/accuracy/%s", rk), cfg + vh::fmt(": residual %.4Le of amplitude %.3Lf against the band-limited signal at t=i*q/p%+.3Lf (allowed 5%%); tones f=%s", worst, sumA, tau,
                                                                             vh::fmt("%.4f%s", f[0], nt > 1 ? ",..." : "").c_str()));
    }
}

//resample(x,p,q,h) with an explicit linear-phase h: the result must be one fixed phase of the chain (exactly), with no
//sample lost or repeated, and that phase must be within one output sample of the filter's group delay
static void check_resample_exact(int p_, int q_, int len, const arr_real& h, const char* hk, vh::Rng& r) {
    const int g = std::gcd(p_, q_);
    const int p = p_ / g;
    const int q = q_ / g;
    if (p == q) {
        return;
    }
    vh::begin_case("resample_h", "p=%d q=%d len=%d nh=%d %s", p_, q_, len, h.size(), hk);
    const arr_real x = gauss_real(r, len);
    arr_real y;
    std::string what;
    const auto oc = try_call([&] { y = dl::resample(x, p_, q_, h); }, &what);
    vh::Hasher hh;
    hh.s("resample_h").i(p_).i(q_).i(len).u64(hash_arr(h));
    vh::count(hh.get(), true);
    const std::string cfg = vh::fmt("resample(x[%d], %d, %d, h[%d] %s)", len, p_, q_, h.size(), hk);
    const char* rk = (p > q ? "up" : "down");
    if (oc != Outcome::Returned) {
        vh::violation(vh::fmt("C08/resample_h/threw/%s", rk), cfg + ": threw: " + what);
        return;
    }
    const long want = long(p) * ((len + q - 1) / q);
    if (y.size() != want) {
        vh::violation(vh::fmt("C08/resample_h/length/%s", rk), cfg + vh::fmt(": returned %d samples, expected %ld", y.size(), want));
        return;
    }
    const RV v = chain_ref(x, h, p);
    const ld tol = 16 * ref::EPS * sumabs_g(h, p) * maxabs(x);
    const long smax = long(h.size()) + 3L * p * q + 8;
    std::vector<long> fits;
    ld best = 1e300L;
    for (long sft = -smax; sft <= smax; ++sft) {
        ld worst = 0;
        for (int i = 0; i < y.size(); ++i) {
            const long k = long(i) * q + sft;
            const ld rv = (k >= 0 && k < long(v.size())) ? v[k] : 0;
            worst = std::max(worst, fabsl(ld(y[i]) - rv));
            if (worst > tol && worst > best) {
                break;
            }
        }
        best = std::min(best, worst);
        if (worst <= tol) {
            fits.push_back(sft);
        }
    }
    if (fits.empty()) {
        vh::violation(vh::fmt("C08/resample_h/not_a_chain_phase/%s", rk), cfg + vh::fmt(": no integer offset s with y[i]=v[i*q+s]; best residual %.3Le (tol %.3Le)", best, tol));
        return;
    }
    if (fits.size() > 1) {
        vh::skip("resample_h_offset_not_unique");
        return;
    }
    //distance from the filter's group delay (centroid of h), in output samples: an observation only - the statement's
    //alignment clause is about resample(x, p, q) with the default design, judged in check_resample()
    ld cen = 0, sh = 0;
    for (int k = 0; k < h.size(); ++k) {
        cen += ld(k) * h[k];
        sh += h[k];
    }
    const ld shift_out = (ld(fits[0]) - cen / sh) / q;
    vh::obs_max("resample_h_abs_shift_output_samples", double(fabsl(shift_out)));
    vh::obs_add("resample_h_exact_cases");
    (void)rk;
}

int main(int argc, char** argv) {
    vh::init(argc, argv, "C08");
    const bool thorough = vh::g.thorough();
    uint64_t idx = 0;

    std::vector<std::pair<int, int>> ratios;
    const int rmax = thorough ? 24 : 16;
    for (int L = 1; L <= rmax; ++L) {
        for (int M = 1; M <= rmax; ++M) {
            if (std::gcd(L, M) == 1) {
                ratios.push_back({L, M});
            }
        }
    }
    std::vector<std::pair<int, int>> audio = {{160, 441}, {441, 160}, {147, 160}, {160, 147}, {320, 147}, {147, 320}, {2, 3}, {3, 2}};
    for (size_t ri = 0; ri < ratios.size() + audio.size(); ++ri) {
        const bool is_audio = ri >= ratios.size();
        const int L = is_audio ? audio[ri - ratios.size()].first : ratios[ri].first;
        const int M = is_audio ? audio[ri - ratios.size()].second : ratios[ri].second;
        if (!vh::mine(idx++)) {
            continue;
        }
        vh::Rng r = vh::rng_for("ratio", uint64_t(L) * 1000 + M);
        std::vector<Conv> convs;
        auto add_kind = [&](const std::string& kind, bool def, const arr_real& h) {
            Conv c;
            c.kind = kind;
            c.L = L;
            c.M = M;
            c.h = h;
            c.default_h = def;
            if (kind == "FIRInterpolator") {
                c.make = [=]() -> std::shared_ptr<dl::IResampler> { return def ? std::make_shared<dl::FIRInterpolator>(L) : std::make_shared<dl::FIRInterpolator>(L, h); };
            } else if (kind == "FIRDecimator") {
                c.make = [=]() -> std::shared_ptr<dl::IResampler> { return def ? std::make_shared<dl::FIRDecimator>(M) : std::make_shared<dl::FIRDecimator>(M, h); };
            } else if (kind == "FIRRateConverter") {
                c.make = [=]() -> std::shared_ptr<dl::IResampler> { return def ? std::make_shared<dl::FIRRateConverter>(L, M) : std::make_shared<dl::FIRRateConverter>(L, M, h); };
            } else {
                const int k = 1 + int(h.size() % 3);   //non-reduced rates exercise simplify()
                c.make = [=]() -> std::shared_ptr<dl::IResampler> { return def ? std::make_shared<dl::FIRResampler>(L * k, M * k) : std::make_shared<dl::FIRResampler>(L * k, M * k, h); };
            }
            convs.push_back(c);
        };
        const arr_real hdef = dl::design_multirate_fir(L, M);
        //custom symmetric h: lengths that are and are not multiples of L / M (padding path of polyphase)
        std::vector<int> hlens = {2, 2 * std::max(L, M) + 1, 4 * std::max(L, M), int(r.range(2, 40 * std::max(L, M)))};
        if (is_audio) {
            hlens = {2 * std::max(L, M) + 1, int(r.range(2, 8 * std::max(L, M)))};
        } else if (thorough) {
            //more coefficient lengths: around multiples of L and of M (padding path of the polyphase split), odd and even
            const int k1 = int(r.range(1, 12));
            hlens.push_back(k1 * L + 1);
            hlens.push_back(k1 * M - 1 > 1 ? k1 * M - 1 : 3);
            hlens.push_back(int(r.range(2, 40 * std::max(L, M))) | 1);
        }
        if (L == 1 && M == 1) {
            continue;
        }
        if (M == 1) {
            add_kind("FIRInterpolator", true, hdef);
        } else if (L == 1) {
            add_kind("FIRDecimator", true, hdef);
        } else {
            add_kind("FIRRateConverter", true, hdef);
        }
        add_kind("FIRResampler", true, hdef);
        for (int hl : hlens) {
            const arr_real h = sym_h(r, hl);
            if (M == 1) {
                add_kind("FIRInterpolator", false, h);
            } else if (L == 1) {
                add_kind("FIRDecimator", false, h);
            } else {
                add_kind("FIRRateConverter", false, h);
            }
            if (hl == hlens.back()) {
                add_kind("FIRResampler", false, h);
            }
        }
        for (const auto& c : convs) {
            check_conv(c, r, thorough);
        }
        vh::obs_add("ratios_checked");
    }

    //---- several default-designed converters of DIFFERENT rates built one after another in one process (every shard runs this):
    //a design cached from the first instance must not leak into the next ones
    {
        vh::Rng r = vh::rng_for("crossconfig", uint64_t(vh::g.shard));
        std::vector<std::pair<int, int>> seq = {{1, 2}, {1, 4}, {1, 5}, {3, 1}, {2, 1}, {5, 1}, {3, 2}, {2, 3}, {5, 3}, {1, 3}, {4, 1}, {1, 2}};
        for (size_t i = seq.size(); i > 1; --i) {
            std::swap(seq[i - 1], seq[r.below(i)]);
        }
        for (auto [L, M] : seq) {
            Conv c;
            c.L = L;
            c.M = M;
            c.h = dl::design_multirate_fir(L, M);
            c.default_h = true;
            const int l = L, m = M;
            if (M == 1) {
                c.kind = "FIRInterpolator";
                c.make = [l]() -> std::shared_ptr<dl::IResampler> { return std::make_shared<dl::FIRInterpolator>(l); };
            } else if (L == 1) {
                c.kind = "FIRDecimator";
                c.make = [m]() -> std::shared_ptr<dl::IResampler> { return std::make_shared<dl::FIRDecimator>(m); };
            } else {
                c.kind = "FIRRateConverter";
                c.make = [l, m]() -> std::shared_ptr<dl::IResampler> { return std::make_shared<dl::FIRRateConverter>(l, m); };
            }
            check_conv(c, r, false);
            Conv c2 = c;
            c2.kind = "FIRResampler";
            c2.make = [l, m]() -> std::shared_ptr<dl::IResampler> { return std::make_shared<dl::FIRResampler>(l, m); };
            check_conv(c2, r, false);
            vh::obs_add("cross_configuration_instances", 2);
        }
    }

    //resample(): all reduced p,q <= 16 (+ non-reduced and audio), several lengths
    std::vector<std::pair<int, int>> pq = ratios;
    pq.push_back({1, 1});
    for (auto a : audio) {
        pq.push_back(a);
    }
    pq.push_back({48000, 44100});
    pq.push_back({44100, 48000});
    pq.push_back({6, 4});
    pq.push_back({10, 4});
    pq.push_back({8, 8});
    for (size_t i = 0; i < pq.size(); ++i) {
        if (!vh::mine(idx++)) {
            continue;
        }
        vh::Rng r = vh::rng_for("resample", i);
        const int p = pq[i].first;
        const int q = pq[i].second;
        const int g = std::gcd(p, q);
        const int qq = q / g;
        const int pp = p / g;
        const int base = std::max(400, 60 * std::max(pp, qq) / std::max(1, std::min(pp, qq)) * qq / std::max(1, pp) + 60 * qq);
        std::vector<int> lens = {base, base + 1, base + qq - 1, (base / qq) * qq, int(r.range(base, 2 * base))};
        if (!thorough) {
            lens.resize(3);
        }
        for (int len : lens) {
            check_resample(p, q, std::min(len, 60000), r);
        }
        //explicit coefficient vectors: designed (same family as the default) and random symmetric
        {
            const arr_real hd = dl::design_multirate_fir(pp, qq, 6, 40.0);
            check_resample_exact(p, q, lens[0] / 2 + 7, hd, "designed", r);
            const arr_real hs = sym_h(r, int(r.range(2 * std::max(pp, qq), 12 * std::max(pp, qq))) | 1);
            check_resample_exact(p, q, lens[0] / 2 + 3, hs, "custom symmetric odd length", r);
            const arr_real he = sym_h(r, 2 * int(r.range(std::max(pp, qq), 6 * std::max(pp, qq))));
            check_resample_exact(p, q, lens[1] / 2, he, "custom symmetric even length", r);
        }
        //tiny inputs: only the length rule and no exception
        for (int len : {1, 2, qq, qq + 1}) {
            vh::begin_case("resample_tiny", "p=%d q=%d len=%d", p, q, len);
            arr_real y;
            std::string what;
            const auto oc = try_call([&] { y = dl::resample(gauss_real(r, len), p, q); }, &what);
            vh::Hasher hh;
            hh.s("tiny").i(p).i(q).i(len);
            vh::count(hh.get(), true);
            const long want = (pp == qq) ? len : long(pp) * ((len + qq - 1) / qq);
            if (oc != Outcome::Returned) {
                vh::violation(vh::fmt("C08/resample/threw/%s", (pp == qq) ? "p=q" : (pp > qq ? "up" : "down")), vh::fmt("resample(x[%d], %d, %d) threw: %s", len, p, q, what.c_str()));
            } else if (y.size() != want) {
                vh::violation(vh::fmt("C08/resample/length/%s", (pp == qq) ? "p=q" : (pp > qq ? "up" : "down")), vh::fmt("resample(x[%d], %d, %d) returned %d samples, expected %ld", len, p, q, y.size(), want));
            }
        }
    }
    vh::sample("resample(x,p,q): every reduced p,q<=16 (thorough: 24) + audio ratios; 1..3 tones below 0.8*min(1,p/q)*Nyquist, LS fit of the output against the tones at t=i*q/p+tau");
    vh::g.exhaustive = true;
    return vh::finish();
}
