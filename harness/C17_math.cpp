// C17 - elementary and reduction functions return their mathematical values.
// Oracle: long double evaluation of each definition; tolerance k*eps*scale with k from the rounding analysis.
#include "dsp.h"

using namespace vd;
namespace dl = dsplib;

static const ld E = ref::EPS;
static uint64_t g_case = 0;

static void judge(const char* fn, const char* cls, ld got_re, ld got_im, ld want_re, ld want_im, ld tol, const std::string& ctx) {
    vh::Hasher h;
    h.s(fn).s(ctx);
    vh::count(h.get(), true);
    ++g_case;
    const bool fin = std::isfinite(double(got_re)) && std::isfinite(double(got_im));
    const ld err = hypotl(got_re - want_re, got_im - want_im);
    if (tol > 0 && fin) {
        vh::obs_max(std::string("err_over_tol_") + fn, double(err / tol));
    }
    if (!fin || !(err <= tol)) {
        vh::violation(vh::fmt("C17/%s/%s", fn, cls), vh::fmt("%s: got (%.17Lg, %.17Lg), definition gives (%.17Lg, %.17Lg); |err| = %.3Le > tolerance %.3Le", ctx.c_str(), got_re, got_im, want_re, want_im, err, tol));
    }
}
static void judge_r(const char* fn, const char* cls, double got, ld want, ld tol, const std::string& ctx) {
    judge(fn, cls, got, 0, want, 0, tol, ctx);
}
static void judge_c(const char* fn, const char* cls, cmplx_t got, C want, ld tol, const std::string& ctx) {
    judge(fn, cls, got.re, got.im, want.re, want.im, tol, ctx);
}

static double special_real(vh::Rng& r, int k) {
    switch (k % 8) {
    case 0:
        return 0.0;
    case 1:
        return -0.0;
    case 2:
        return 1.0;
    case 3:
        return -1.0;
    case 4:
        return r.logmag(1e-100, 1e100);
    default:
        return r.logmag(1e-3, 1e3);
    }
}

static cmplx_t special_cmplx(vh::Rng& r, int k) {
    switch (k % 12) {
    case 0:
        return {0.0, 0.0};
    case 1:
        return {1.0, 0.0};
    case 2:
        return {-1.0, 0.0};
    case 3:
        return {-1.0, -0.0};
    case 4:
        return {0.0, 1.0};
    case 5:
        return {0.0, -1.0};
    case 6:
        return {-std::fabs(r.logmag(1e-3, 1e3)), 0.0};   //negative real axis
    case 7:
        return {0.0, r.logmag(1e-3, 1e3)};                //imaginary axis
    case 8: {
        const double m = std::fabs(r.logmag(1e-100, 1e100));
        const double p = r.uni(-3.14159, 3.14159);
        return {m * std::cos(p), m * std::sin(p)};
    }
    default:
        return {r.logmag(1e-3, 1e3), r.logmag(1e-3, 1e3)};
    }
}

static const char* cclass(cmplx_t v) {
    if (v.re == 0 && v.im == 0) {
        return "zero";
    }
    if (v.im == 0 && v.re < 0) {
        return "negative_real_axis";
    }
    return "general";
}

//---- scalar and element-wise functions ------------------------------------------------------------------------------
static void elementwise(vh::Rng& r, int rounds) {
    for (int t = 0; t < rounds; ++t) {
        const double x = special_real(r, t);
        const cmplx_t z = special_cmplx(r, t);
        const ld zr = z.re, zi = z.im;
        const ld az = hypotl(zr, zi);
        const std::string sx = vh::fmt("x=%.17g", x);
        const std::string sz = vh::fmt("z=(%.17g,%.17g)", z.re, z.im);
        vh::begin_case("elementwise", "%s %s", sx.c_str(), sz.c_str());
        //abs / abs2
        judge_r("abs", "real", dl::abs(x), fabsl(ld(x)), 0, "abs(" + sx + ")");
        judge_r("abs", "complex", dl::abs(z), az, 2 * E * az, "abs(" + sz + ")");
        judge_r("abs2", "complex", dl::abs2(z), zr * zr + zi * zi, 2 * E * az * az, "abs2(" + sz + ")");
        judge_r("abs2", "real", dl::abs2(x), ld(x) * x, E * ld(x) * x, "abs2(" + sx + ")");
        //angle
        {
            const ld want = atan2l(zi, zr);
            judge_r("angle", cclass(z), dl::angle(z), want, 4 * E * ref::PI_L, "angle(" + sz + ")");
            arr_cmplx a(2);
            a[0] = z;
            a[1] = cmplx_t{-z.re, z.im};
            const arr_real g = dl::angle(a);
            judge_r("angle", cclass(z), g[0], want, 4 * E * ref::PI_L, "angle(arr{" + sz + "})[0]");
        }
        //exp / expj (arguments kept where exp does not overflow)
        {
            const double xe = r.uni(-700, 700);
            judge_r("exp", "real", dl::exp(xe), expl(ld(xe)), 4 * E * expl(ld(xe)), vh::fmt("exp(%.17g)", xe));
            const cmplx_t ze{r.uni(-200, 200), r.uni(-50, 50)};
            const ld m = expl(ld(ze.re));
            judge_c("exp", "complex", dl::exp(ze), C{m * cosl(ld(ze.im)), m * sinl(ld(ze.im))}, 4 * E * m, vh::fmt("exp((%.17g,%.17g))", ze.re, ze.im));
            const double ph = (t % 3 == 0) ? x : r.uni(-1e6, 1e6);
            if (std::fabs(ph) <= 1e6) {
                judge_c("expj", "real", dl::expj(ph), C{cosl(ld(ph)), sinl(ld(ph))}, 2 * E, vh::fmt("expj(%.17g)", ph));
            }
            arr_real pa(3);
            pa[0] = ph;
            pa[1] = -ph;
            pa[2] = 0.0;
            if (std::fabs(ph) <= 1e6) {
                const arr_cmplx ge = dl::expj(pa);
                judge_c("expj", "array", ge[1], C{cosl(ld(-ph)), sinl(ld(-ph))}, 2 * E, vh::fmt("expj(arr)[1], arg %.17g", -ph));
                const arr_real gx = dl::exp(pa / 1e4);
                judge_r("exp", "array", gx[0], expl(ld(pa[0] / 1e4)), 4 * E * expl(ld(pa[0] / 1e4)), "exp(arr)[0]");
            }
        }
        //logarithms (positive arguments)
        {
            const double p = std::fabs(r.logmag(1e-100, 1e100));
            const ld wl = logl(ld(p));
            judge_r("log", "real", dl::log(p), wl, 2 * E * fabsl(wl) + 1e-300L, vh::fmt("log(%.17g)", p));
            judge_r("log2", "real", dl::log2(p), log2l(ld(p)), 2 * E * fabsl(log2l(ld(p))) + 1e-300L, vh::fmt("log2(%.17g)", p));
            judge_r("log10", "real", dl::log10(p), log10l(ld(p)), 2 * E * fabsl(log10l(ld(p))) + 1e-300L, vh::fmt("log10(%.17g)", p));
            arr_real pa(2);
            pa[0] = p;
            pa[1] = 1.0;
            judge_r("log", "array", dl::log(pa)[0], wl, 2 * E * fabsl(wl) + 1e-300L, "log(arr)[0]");
            judge_r("log2", "array", dl::log2(pa)[1], 0, 0, "log2(arr{..,1})[1]");
            judge_r("log10", "array", dl::log10(pa)[0], log10l(ld(p)), 2 * E * fabsl(log10l(ld(p))) + 1e-300L, "log10(arr)[0]");
            //dB conversions
            judge_r("pow2db", "real", dl::pow2db(p), 10 * log10l(ld(p)), 4 * E * fabsl(10 * log10l(ld(p))) + 1e-300L, vh::fmt("pow2db(%.17g)", p));
            judge_r("mag2db", "real", dl::mag2db(p), 20 * log10l(ld(p)), 4 * E * fabsl(20 * log10l(ld(p))) + 1e-300L, vh::fmt("mag2db(%.17g)", p));
            const double db = r.uni(-300, 300);
            const ld wp = powl(10, ld(db) / 10);
            const ld wm = powl(10, ld(db) / 20);
            judge_r("db2pow", "real", dl::db2pow(db), wp, (8 + 4 * fabsl(ld(db))) * E * wp, vh::fmt("db2pow(%.17g)", db));
            judge_r("db2mag", "real", dl::db2mag(db), wm, (8 + 4 * fabsl(ld(db))) * E * wm, vh::fmt("db2mag(%.17g)", db));
            arr_real da(2);
            da[0] = db;
            da[1] = 0;
            judge_r("db2pow", "array", dl::db2pow(da)[0], wp, (8 + 4 * fabsl(ld(db))) * E * wp, "db2pow(arr)[0]");
            judge_r("db2mag", "array", dl::db2mag(da)[1], 1, 2 * E, "db2mag(arr{..,0})[1]");
            judge_r("pow2db", "array", dl::pow2db(pa)[0], 10 * log10l(ld(p)), 4 * E * fabsl(10 * log10l(ld(p))) + 1e-300L, "pow2db(arr)[0]");
            judge_r("mag2db", "array", dl::mag2db(pa)[1], 0, 0, "mag2db(arr{..,1})[1]");
            //round trips
            const ld lnp = fabsl(logl(ld(p)));
            judge_r("roundtrip_pow2db", "real", dl::db2pow(dl::pow2db(p)), p, (16 + 8 * lnp) * E * p, vh::fmt("db2pow(pow2db(%.17g))", p));
            judge_r("roundtrip_mag2db", "real", dl::db2mag(dl::mag2db(p)), p, (16 + 8 * lnp) * E * p, vh::fmt("db2mag(mag2db(%.17g))", p));
        }
        //degrees / radians
        {
            judge_r("deg2rad", "real", dl::deg2rad(x), ld(x) * ref::PI_L / 180, 4 * E * fabsl(ld(x)) * ref::PI_L / 180, "deg2rad(" + sx + ")");
            judge_r("rad2deg", "real", dl::rad2deg(x), ld(x) * 180 / ref::PI_L, 4 * E * fabsl(ld(x)) * 180 / ref::PI_L, "rad2deg(" + sx + ")");
            judge_r("roundtrip_deg", "real", dl::rad2deg(dl::deg2rad(x)), x, 8 * E * fabsl(ld(x)), "rad2deg(deg2rad(" + sx + "))");
            arr_real xa(1);
            xa[0] = x;
            judge_r("deg2rad", "array", dl::deg2rad(xa)[0], ld(x) * ref::PI_L / 180, 4 * E * fabsl(ld(x)) * ref::PI_L / 180, "deg2rad(arr)[0]");
            judge_r("rad2deg", "array", dl::rad2deg(xa)[0], ld(x) * 180 / ref::PI_L, 4 * E * fabsl(ld(x)) * 180 / ref::PI_L, "rad2deg(arr)[0]");
        }
        //tanh
        {
            const double a = r.uni(-20, 20);
            arr_real ta(1);
            ta[0] = a;
            judge_r("tanh", "real", dl::tanh(ta)[0], tanhl(ld(a)), 4 * E, vh::fmt("tanh(%.17g)", a));
            const cmplx_t c{r.uni(-5, 5), r.uni(-3, 3)};
            const ld den = coshl(2 * ld(c.re)) + cosl(2 * ld(c.im));
            if (den > 0.01L) {
                arr_cmplx tc(1);
                tc[0] = c;
                const C want{sinhl(2 * ld(c.re)) / den, sinl(2 * ld(c.im)) / den};
                judge_c("tanh", "complex", dl::tanh(tc)[0], want, 32 * E * (ref::cabs(want) + 1) / std::min<ld>(1, den), vh::fmt("tanh((%.17g,%.17g))", c.re, c.im));
            }
        }
        //round
        {
            const double v = (t % 4 == 0) ? (double(r.range(-50, 50)) + 0.5) : r.uni(-1e6, 1e6);
            judge_r("round", "real", dl::round(v), roundl(ld(v)), 0, vh::fmt("round(%.17g)", v));
            judge_c("round", "complex", dl::round(cmplx_t{v, -v}), C{roundl(ld(v)), roundl(ld(-v))}, 0, vh::fmt("round((%.17g,%.17g))", v, -v));
            arr_real va(2);
            va[0] = v;
            va[1] = -0.5;
            judge_r("round", "array", dl::round(va)[1], -1, 0, "round(arr{..,-0.5})[1]");
        }
        //real / imag / conj / complex and their round trip
        {
            arr_cmplx a(2);
            a[0] = z;
            a[1] = cmplx_t{x, -x};
            const arr_real re = dl::real(a), im = dl::imag(a);
            const arr_cmplx cj = dl::conj(a);
            const arr_cmplx back = dl::complex(re, im);
            const arr_cmplx only = dl::complex(re);
            const bool ok = (re[0] == z.re || (std::isnan(re[0]) && std::isnan(z.re))) && im[0] == z.im && cj[0].re == z.re && cj[0].im == -z.im && bit_equal(back, a) && only[1].re == x && only[1].im == 0 &&
                            dl::real(z) == z.re && dl::imag(z) == z.im && dl::conj(z).im == -z.im;
            vh::Hasher h;
            h.s("parts").s(sz);
            vh::count(h.get(), true);
            if (!ok) {
                vh::violation("C17/real_imag_conj_complex/exact", "real/imag/conj/complex of " + sz + " are not exact or complex(real(a),imag(a)) != a");
            }
        }
        //powers
        {
            //real ^ real
            const double bpos = std::fabs(r.logmag(1e-30, 1e30));
            const double e1 = (t % 2) ? double(r.range(-8, 8)) : r.uni(-8, 8);
            const ld wr = powl(ld(bpos), ld(e1));
            judge_r("power", "real^real", dl::power(bpos, e1), wr, 4 * E * wr, vh::fmt("power(%.17g, %.17g)", bpos, e1));
            const int ei = int(r.range(-8, 8));
            const double bneg = -bpos;
            if (std::fabs(std::log10(bpos) * ei) < 290) {
                const ld wi = powl(ld(bneg), ld(ei));
                judge_r("power", "real^int", dl::power(bneg, ei), wi, 4 * E * fabsl(wi), vh::fmt("power(%.17g, int %d)", bneg, ei));
                judge_r("power", "real^integral_real", dl::power(bneg, double(ei)), wi, 4 * E * fabsl(wi), vh::fmt("power(%.17g, %d.0)", bneg, ei));
            }
            judge_r("power", "zero^positive", dl::power(0.0, std::fabs(e1) + 0.5), 0, 0, "power(0, positive)");
            //complex ^ real (principal branch) and complex ^ int
            if (az > 0 && std::fabs(double(log10l(az)) * e1) < 290) {
                const ld mag = powl(az, ld(e1));
                const ld ang = atan2l(zi, zr) * ld(e1);
                const C want{mag * cosl(ang), mag * sinl(ang)};
                judge_c("power", (std::string("complex^real/") + cclass(z)).c_str(), dl::power(z, e1), want, (16 + 16 * fabsl(ld(e1))) * E * mag, "power(" + sz + vh::fmt(", %.17g)", e1));
                arr_cmplx za(1);
                za[0] = z;
                judge_c("power", (std::string("complex_array^real/") + cclass(z)).c_str(), dl::power(za, e1)[0], want, (16 + 16 * fabsl(ld(e1))) * E * mag, "power(arr{" + sz + vh::fmt("}, %.17g)[0]", e1));
                arr_real ea(1);
                ea[0] = e1;
                judge_c("power", (std::string("complex^real_array/") + cclass(z)).c_str(), dl::power(z, ea)[0], want, (16 + 16 * fabsl(ld(e1))) * E * mag, "power(" + sz + ", arr)[0]");
                judge_c("power", (std::string("complex_array^real_array/") + cclass(z)).c_str(), dl::power(za, ea)[0], want, (16 + 16 * fabsl(ld(e1))) * E * mag, "power(arr, arr)[0]");
            }
            if (az > 0 && std::fabs(double(log10l(az)) * ei) < 290) {
                const ld mag = powl(az, ld(ei));
                const ld ang = atan2l(zi, zr) * ld(ei);
                const C want{mag * cosl(ang), mag * sinl(ang)};
                judge_c("power", (std::string("complex^int/") + cclass(z)).c_str(), dl::power(z, ei), want, (16 + 16 * std::abs(ei)) * E * mag, "power(" + sz + vh::fmt(", int %d)", ei));
                arr_cmplx za(1);
                za[0] = z;
                judge_c("power", (std::string("complex_array^int/") + cclass(z)).c_str(), dl::power(za, ei)[0], want, (16 + 16 * std::abs(ei)) * E * mag, "power(arr{" + sz + vh::fmt("}, int %d)[0]", ei));
            }
            if (az == 0) {
                const double ep = std::fabs(e1) + 0.25;
                judge_c("power", "complex^real/zero", dl::power(z, ep), C{0, 0}, 0, "power(" + sz + vh::fmt(", %.17g)", ep));
                judge_c("power", "complex^int/zero", dl::power(z, 2), C{0, 0}, 0, "power(" + sz + ", int 2)");
                judge_c("power", "complex^int/zero", dl::power(z, 3), C{0, 0}, 0, "power(" + sz + ", int 3)");
            }
            //array forms of the real power
            arr_real ba(2), ea(2);
            ba[0] = bpos;
            ba[1] = 2.0;
            ea[0] = e1;
            ea[1] = 0.5;
            judge_r("power", "real_array^real", dl::power(ba, e1)[0], wr, 4 * E * wr, "power(arr, real)[0]");
            judge_r("power", "real_array^real_array", dl::power(ba, ea)[1], sqrtl(2.0L), 4 * E, "power(arr{..,2}, arr{..,0.5})[1]");
            judge_r("power", "real^real_array", dl::power(bpos, ea)[0], wr, 4 * E * wr, "power(real, arr)[0]");
            if (std::fabs(std::log10(bpos) * ei) < 290) {
                judge_r("power", "real_array^int", dl::power(ba, ei)[0], powl(ld(bpos), ld(ei)), 4 * E * powl(ld(bpos), ld(ei)), vh::fmt("power(arr, int %d)[0]", ei));
            }
        }
    }
}

//---- reductions --------------------------------------------------------------------------------------------------------
static void reductions(vh::Rng& r, int n) {
    arr_real x(n), y(n);
    arr_cmplx z(n), w(n);
    //one block in ten is degenerate: every element zero (with either sign), or every element the same value
    const int degenerate = (r.below(10) == 0) ? 1 + int(r.below(2)) : 0;
    const bool wide = degenerate ? false : r.coin();
    //non-wide data sit on a mean offset of up to 1e8 standard deviations (cancellation in one-pass variance formulas)
    const double offset = wide ? 0.0 : ((r.below(3) == 0) ? 0.5 : r.logmag(1.0, 1e8));
    for (int i = 0; i < n; ++i) {
        x[i] = wide ? special_real(r, int(r.below(8))) : r.gauss() + offset;
        y[i] = r.gauss();
        z[i] = wide ? special_cmplx(r, int(r.below(12))) : cmplx_t{r.gauss() + offset, r.gauss() - 0.5 * offset};
        w[i] = cmplx_t{r.gauss(), r.gauss()};
        //keep squares finite
        if (std::fabs(x[i]) > 1e100) {
            x[i] = 1e100;
        }
    }
    if (degenerate) {
        const double cv = (degenerate == 1) ? 0.0 : r.gauss() * 3;
        const cmplx_t cz = (degenerate == 1) ? cmplx_t{0, 0} : cmplx_t{r.gauss(), r.gauss()};
        for (int i = 0; i < n; ++i) {
            x[i] = (degenerate == 1 && (i % 2)) ? -0.0 : cv;
            z[i] = (degenerate == 1 && (i % 3 == 1)) ? cmplx_t{-0.0, 0.0} : cz;
        }
        vh::obs_add(degenerate == 1 ? "reduction_blocks_all_zero" : "reduction_blocks_constant");
    }
    vh::begin_case("reductions", "n=%d wide=%d degenerate=%d", n, int(wide), degenerate);
    const std::string ctx = vh::fmt("(n=%d, %s values, seed %llu)", n, wide ? "1e+-100 magnitudes and special points" : vh::fmt("gaussian + offset %.3g", offset).c_str(), (unsigned long long)vh::g.seed);
    ld sx = 0, sax = 0, sxx = 0, mxv = -INFINITY, mnv = INFINITY;
    int imx = 0, imn = 0;
    for (int i = 0; i < n; ++i) {
        sx += x[i];
        sax += fabsl(ld(x[i]));
        sxx += ld(x[i]) * x[i];
        if (x[i] > mxv) {
            mxv = x[i];
            imx = i;
        }
        if (x[i] < mnv) {
            mnv = x[i];
            imn = i;
        }
    }
    C sz;
    ld saz = 0, szz = 0;
    for (int i = 0; i < n; ++i) {
        sz = sz + C{z[i].re, z[i].im};
        saz += hypotl(ld(z[i].re), ld(z[i].im));
        szz += ld(z[i].re) * z[i].re + ld(z[i].im) * z[i].im;
    }
    judge_r("sum", "real", dl::sum(x), sx, n * E * sax, "sum(x) " + ctx);
    judge_c("sum", "complex", dl::sum(z), sz, n * E * saz * 1.5L, "sum(z) " + ctx);
    judge_r("mean", "real", dl::mean(x), sx / n, (n + 2) * E * sax / n, "mean(x) " + ctx);
    judge_c("mean", "complex", dl::mean(z), sz * (ld(1) / n), (n + 2) * E * saz * 1.5L / n, "mean(z) " + ctx);
    //cumulative sums
    {
        const arr_real cf = dl::cumsum(x);
        const arr_real cr = dl::cumsum(x, dl::Direction::Reverse);
        ld a = 0, aa = 0;
        bool ok = cf.size() == n && cr.size() == n;
        for (int i = 0; ok && i < n; ++i) {
            a += x[i];
            aa += fabsl(ld(x[i]));
            ok = fabsl(ld(cf[i]) - a) <= (i + 1) * E * aa;
        }
        a = 0;
        aa = 0;
        for (int i = n - 1; ok && i >= 0; --i) {
            a += x[i];
            aa += fabsl(ld(x[i]));
            ok = fabsl(ld(cr[i]) - a) <= (n - i) * E * aa;
        }
        const arr_cmplx cz = dl::cumsum(z);
        C b;
        ld bb = 0;
        for (int i = 0; ok && i < n; ++i) {
            b = b + C{z[i].re, z[i].im};
            bb += hypotl(ld(z[i].re), ld(z[i].im));
            ok = ref::cabs(C{cz[i].re, cz[i].im} - b) <= (i + 1) * E * bb * 1.5L;
        }
        vh::Hasher h;
        h.s("cumsum").s(ctx).u64(hash_arr(x));
        vh::count(h.get(), true);
        if (!ok) {
            vh::violation("C17/cumsum/value", "cumsum forward/reverse/complex " + ctx + " deviates from the running sums");
        }
    }
    //dot (bilinear, as the library defines it for complex data)
    {
        ld d = 0, da = 0;
        C dc;
        ld dca = 0;
        for (int i = 0; i < n; ++i) {
            d += ld(x[i]) * y[i];
            da += fabsl(ld(x[i]) * y[i]);
            dc = dc + C{z[i].re, z[i].im} * C{w[i].re, w[i].im};
            dca += hypotl(ld(z[i].re), ld(z[i].im)) * hypotl(ld(w[i].re), ld(w[i].im));
        }
        judge_r("dot", "real", dl::dot(x, y), d, (n + 2) * E * da, "dot(x,y) " + ctx);
        judge_c("dot", "complex", dl::dot(z, w), dc, (n + 4) * E * dca * 1.5L, "dot(z,w) " + ctx);
    }
    //rms / stddev / norm
    {
        judge_r("rms", "real", dl::rms(x), sqrtl(sxx / n), (n + 4) * E * sqrtl(sxx / n), "rms(x) " + ctx);
        judge_r("rms", "complex", dl::rms(z), sqrtl(szz / n), (n + 4) * E * sqrtl(szz / n), "rms(z) " + ctx);
        if (n >= 2) {
            ld m = sx / n, v = 0;
            for (int i = 0; i < n; ++i) {
                v += (x[i] - m) * (x[i] - m);
            }
            const ld sd = sqrtl(v / (n - 1));
            //the deviation sum is computed from rounded x-m: error scales with eps*|x| per term
            judge_r("stddev", "real", dl::stddev(x), sd, (n + 8) * E * (sd + sax / n), "stddev(x) " + ctx);
            C mz = sz * (ld(1) / n);
            ld vz = 0;
            for (int i = 0; i < n; ++i) {
                vz += ref::abs2(C{z[i].re, z[i].im} - mz);
            }
            const ld sdz = sqrtl(vz / (n - 1));
            judge_r("stddev", "complex", dl::stddev(z), sdz, (n + 8) * E * (sdz + saz / n) * 1.5L, "stddev(z) " + ctx);
        }
        judge_r("norm", "p=1", dl::norm(x, 1), sax, (n + 2) * E * sax, "norm(x,1) " + ctx);
        judge_r("norm", "p=2", dl::norm(x), sqrtl(sxx), (n + 4) * E * sqrtl(sxx), "norm(x,2) " + ctx);
        judge_r("norm", "p=2_complex", dl::norm(z, 2), sqrtl(szz), (n + 4) * E * sqrtl(szz), "norm(z,2) " + ctx);
        judge_r("norm", "p=1_complex", dl::norm(z, 1), saz, (n + 4) * E * saz, "norm(z,1) " + ctx);
        if (!wide) {
            for (int p : {3, 4, 7}) {
                ld s = 0;
                for (int i = 0; i < n; ++i) {
                    s += powl(fabsl(ld(x[i])), p);
                }
                const ld want = powl(s, ld(1) / p);
                judge_r("norm", "p>2", dl::norm(x, p), want, (n + 16) * E * want, vh::fmt("norm(x,%d) ", p) + ctx);
            }
        }
    }
    //extrema
    {
        vh::Hasher h;
        h.s("extrema").s(ctx).u64(hash_arr(x));
        vh::count(h.get(), true);
        bool ok = dl::max(x) == double(mxv) && dl::min(x) == double(mnv) && dl::argmax(x) == imx && dl::argmin(x) == imn && dl::peak2peak(x) == double(mxv) - double(mnv);
        if (!ok) {
            vh::violation("C17/extrema/real", vh::fmt("max/min/argmax/argmin/peak2peak %s: got max %.17g@%d min %.17g@%d, expected max %.17Lg@%d min %.17Lg@%d", ctx.c_str(), dl::max(x), dl::argmax(x), dl::min(x),
                                                      dl::argmin(x), mxv, imx, mnv, imn));
        }
        //complex: ordered by modulus (first occurrence)
        int cmx = 0, cmn = 0;
        for (int i = 1; i < n; ++i) {
            if (z[i].abs2() > z[cmx].abs2()) {
                cmx = i;
            }
            if (z[i].abs2() < z[cmn].abs2()) {
                cmn = i;
            }
        }
        //complex values are ordered by modulus only: with equal moduli "the" maximum is not unique, such arrays are not judged
        int tmx = 0, tmn = 0;
        for (int i = 0; i < n; ++i) {
            tmx += (z[i].abs2() == z[cmx].abs2());
            tmn += (z[i].abs2() == z[cmn].abs2());
        }
        const cmplx_t gmx = dl::max(z), gmn = dl::min(z), p2p = dl::peak2peak(z);
        ok = dl::argmax(z) == cmx && dl::argmin(z) == cmn && gmx == z[cmx] && gmn == z[cmn] && p2p.re == z[cmx].re - z[cmn].re && p2p.im == z[cmx].im - z[cmn].im;
        if (tmx > 1 || tmn > 1) {
            vh::skip("complex_extrema_with_equal_moduli");
        } else if (!ok) {
            vh::violation("C17/extrema/complex", "max/min/argmax/argmin/peak2peak of a complex array " + ctx + " do not select the elements of largest / smallest modulus");
        }
    }
}

//---- shapes --------------------------------------------------------------------------------------------------------------
static void shapes(vh::Rng& r, bool thorough) {
    //upsample / downsample: factors and phases exhaustively for n <= 12
    for (int n = 1; n <= 12; ++n) {
        const arr_real x = gauss_real(r, n);
        const arr_cmplx z = gauss_cmplx(r, n);
        for (int f = 1; f <= std::max(1, n - 1) + 1; ++f) {
            for (int ph = 0; ph < f; ++ph) {
                vh::begin_case("updown", "n=%d factor=%d phase=%d", n, f, ph);
                vh::Hasher h;
                h.s("updown").i(n).i(f).i(ph);
                vh::count(h.get(), true);
                const arr_real u = dl::upsample(x, f, ph);
                const arr_cmplx uz = dl::upsample(z, f, ph);
                bool ok = u.size() == n * f && uz.size() == n * f;
                for (int i = 0; ok && i < n * f; ++i) {
                    const bool hit = (i % f) == ph;
                    ok = hit ? (u[i] == x[i / f] && uz[i] == z[i / f]) : (u[i] == 0 && uz[i].re == 0 && uz[i].im == 0);
                }
                if (!ok) {
                    vh::violation("C17/upsample/shape", vh::fmt("upsample(x[%d], %d, %d) wrong", n, f, ph));
                }
                if (ph < n) {
                    const arr_real d = dl::downsample(x, f, ph);
                    const arr_cmplx dz = dl::downsample(z, f, ph);
                    const int want = (n - ph + f - 1) / f;
                    ok = d.size() == want && dz.size() == want;
                    for (int i = 0; ok && i < want; ++i) {
                        ok = d[i] == x[ph + i * f] && dz[i] == z[ph + i * f];
                    }
                    if (!ok) {
                        vh::violation("C17/downsample/shape", vh::fmt("downsample(x[%d], %d, %d) returned %d values, expected x[%d::%d] (%d values)", n, f, ph, d.size(), ph, f, want));
                    }
                }
                //round trip
                if (!bit_equal(dl::downsample(u, f, ph), x)) {
                    vh::violation("C17/roundtrip/updown", vh::fmt("downsample(upsample(x[%d],%d,%d),%d,%d) != x", n, f, ph, f, ph));
                }
            }
        }
        //repelem / flip / zeropad / delayseq
        for (int k = 0; k <= 4; ++k) {
            const arr_real rp = dl::repelem(x, k);
            const arr_cmplx rz = dl::repelem(z, k);
            bool ok = rp.size() == n * k && rz.size() == n * k;
            for (int i = 0; ok && i < n * k; ++i) {
                ok = rp[i] == x[i / k] && rz[i] == z[i / k];
            }
            vh::Hasher h;
            h.s("repelem").i(n).i(k);
            vh::count(h.get(), true);
            if (!ok) {
                vh::violation("C17/repelem/shape", vh::fmt("repelem(x[%d], %d) wrong (size %d)", n, k, rp.size()));
            }
        }
        {
            const arr_real fl = dl::flip(x);
            const arr_cmplx fz = dl::flip(z);
            bool ok = fl.size() == n && fz.size() == n;
            for (int i = 0; ok && i < n; ++i) {
                ok = fl[i] == x[n - 1 - i] && fz[i] == z[n - 1 - i];
            }
            if (!ok || !bit_equal(dl::flip(fl), x)) {
                vh::violation("C17/flip/shape", vh::fmt("flip(x[%d]) wrong", n));
            }
            for (int d = -n - 2; d <= n + 2; ++d) {
                const arr_real ds = dl::delayseq(x, d);
                ok = ds.size() == n;
                for (int i = 0; ok && i < n; ++i) {
                    const int j = i - d;
                    ok = ds[i] == ((j >= 0 && j < n) ? x[j] : 0.0);
                }
                vh::Hasher h;
                h.s("delayseq").i(n).i(d);
                vh::count(h.get(), true);
                if (!ok) {
                    vh::violation("C17/delayseq/shape", vh::fmt("delayseq(x[%d], %d) is not x shifted by %d samples with zero fill", n, d, d));
                }
            }
            for (int m = n; m <= n + 3; ++m) {
                const arr_real zp = dl::zeropad(x, m);
                ok = zp.size() == m;
                for (int i = 0; ok && i < m; ++i) {
                    ok = zp[i] == (i < n ? x[i] : 0.0);
                }
                if (!ok) {
                    vh::violation("C17/zeropad/shape", vh::fmt("zeropad(x[%d], %d) wrong", n, m));
                }
            }
        }
    }
    //linspace n = 1..100
    for (int n = 1; n <= 100; ++n) {
        const double a = r.uni(-100, 100), b = r.uni(-100, 100);
        vh::begin_case("linspace", "n=%d", n);
        const arr_real l = dl::linspace(a, b, n);
        vh::Hasher h;
        h.s("linspace").i(n).d(a).d(b);
        vh::count(h.get(), true);
        bool ok = l.size() == n;
        int bad = -1;
        for (int i = 0; ok && i < n; ++i) {
            const ld want = (n == 1) ? ld(b) : ld(a) + (ld(b) - ld(a)) * i / (n - 1);
            if (!(fabsl(ld(l[i]) - want) <= 4 * E * std::max(fabsl(ld(a)), fabsl(ld(b))))) {
                ok = false;
                bad = i;
            }
        }
        if (!ok) {
            vh::violation("C17/linspace/value", vh::fmt("linspace(%.17g, %.17g, %d): entry %d wrong or size %d", a, b, n, bad, l.size()));
        }
    }
    //integer arange: every start/stop/step in [-12,12]
    for (int a = -12; a <= 12; ++a) {
        for (int b = -12; b <= 12; ++b) {
            for (int s = -12; s <= 12; ++s) {
                if (s == 0) {
                    continue;
                }
                if (!thorough && ((a + b + s) % 2 != 0) && std::abs(s) > 4) {
                    continue;   //quick: half of the large-step cube
                }
                vh::begin_case("arange_int", "arange(%d,%d,%d)", a, b, s);
                std::vector<double> want;
                for (long v = a; (s > 0) ? (v < b) : (v > b); v += s) {
                    want.push_back(double(v));
                }
                vh::Hasher h;
                h.s("arange").i(a).i(b).i(s);
                vh::count(h.get(), true);
                arr_real g;
                std::string what;
                const auto oc = try_call([&] { g = dl::arange(a, b, s); }, &what);
                const char* cls = want.empty() ? "empty" : (((b - a) % s == 0) ? "exact_multiple" : "partial_last_step");
                if (oc != Outcome::Returned) {
                    vh::violation(vh::fmt("C17/arange_int/threw/%s", cls), vh::fmt("arange(%d,%d,%d) threw (%s); expected %zu values", a, b, s, what.c_str(), want.size()));
                    continue;
                }
                bool ok = g.size() == int(want.size());
                for (int i = 0; ok && i < g.size(); ++i) {
                    ok = g[i] == want[i];
                }
                if (!ok) {
                    vh::violation(vh::fmt("C17/arange_int/value/%s", cls), vh::fmt("arange(%d,%d,%d) returned %d values %s, expected %zu values start+k*step strictly before stop", a, b, s, g.size(), head(g).c_str(), want.size()));
                }
            }
        }
    }
    //fractional aranges with an integral count over decimal steps and starts (the count must not depend on how the quotient rounds)
    for (int t = 0; t < 4000; ++t) {
        const double st = r.pick(std::vector<double>{0.1, 0.01, 0.2, 0.3, 0.7, 0.001, -0.1, -0.01, -0.3, 0.05, 1e-4, 2.5});
        const double a = double(r.range(-50, 50)) * r.pick(std::vector<double>{1.0, 0.1, 0.01, 0.25});
        const int n = int(r.range(1, 300));
        const double b = a + st * n;
        //only cases whose count is integral to within a few ulp of the quotient (as the statement says)
        const double q = (b - a) / st;
        if (std::fabs(q - std::round(q)) > 1e-9 * std::fabs(q) || int(std::round(q)) != n) {
            continue;
        }
        vh::begin_case("arange_frac", "arange(%.17g,%.17g,%.17g)", a, b, st);
        const arr_real f = dl::arange(a, b, st);
        vh::Hasher h;
        h.s("arangef2").d(a).d(b).d(st);
        vh::count(h.get(), true);
        bool ok = f.size() == n;
        for (int i = 0; ok && i < n; ++i) {
            ok = fabsl(ld(f[i]) - (ld(a) + ld(st) * i)) <= 8 * E * (fabsl(ld(a)) + fabsl(ld(b)) + 1);
        }
        if (!ok) {
            vh::violation("C17/arange_frac/value", vh::fmt("arange(%.17g, %.17g, %.17g) returned %d values (the count (stop-start)/step = %d is integral)", a, b, st, f.size(), n));
        }
    }
    //arange(int stop), fractional arange with integral count
    for (int n = 0; n <= 40; ++n) {
        const arr_real g = dl::arange(n);
        bool ok = g.size() == n;
        for (int i = 0; ok && i < n; ++i) {
            ok = g[i] == i;
        }
        if (!ok) {
            vh::violation("C17/arange_int/stop_only", vh::fmt("arange(%d) wrong", n));
        }
        const double st = r.pick(std::vector<double>{0.5, 0.25, 0.1, 1.5, -0.5, -0.125});
        const double a = double(r.range(-5, 5));
        const double b = a + st * n;
        if (n > 0) {
            vh::begin_case("arange_frac", "arange(%.3f,%.3f,%.3f)", a, b, st);
            const arr_real f = dl::arange(a, b, st);
            vh::Hasher h;
            h.s("arangef").d(a).d(b).d(st);
            vh::count(h.get(), true);
            ok = f.size() == n;
            for (int i = 0; ok && i < n; ++i) {
                ok = fabsl(ld(f[i]) - (ld(a) + ld(st) * i)) <= 4 * E * (fabsl(ld(a)) + fabsl(ld(b)) + 1);
            }
            if (!ok) {
                vh::violation("C17/arange_frac/value", vh::fmt("arange(%.17g, %.17g, %.17g) returned %d values (count (stop-start)/step = %d is integral)", a, b, st, f.size(), n));
            }
        }
    }
}

//extrema of arrays with repeated values (clipped / quantised data): value and first occurrence
static void extrema_ties(vh::Rng& r, int n) {
    const int alphabet = int(r.range(1, 5));
    arr_real x(n);
    for (int i = 0; i < n; ++i) {
        x[i] = double(r.below(alphabet)) - 1.5;
    }
    int imx = 0, imn = 0;
    for (int i = 1; i < n; ++i) {
        if (x[i] > x[imx]) {
            imx = i;
        }
        if (x[i] < x[imn]) {
            imn = i;
        }
    }
    vh::Hasher h;
    h.s("extrema_ties").i(n).u64(hash_arr(x));
    vh::count(h.get(), true);
    vh::obs_add("extrema_tied_arrays");
    const bool ok = dl::max(x) == x[imx] && dl::min(x) == x[imn] && dl::argmax(x) == imx && dl::argmin(x) == imn && dl::peak2peak(x) == x[imx] - x[imn];
    if (!ok) {
        vh::violation("C17/extrema/real", vh::fmt("array of %d values from an alphabet of %d: got max %.17g@%d min %.17g@%d peak2peak %.17g, expected max %.17g@%d min %.17g@%d (first occurrences)", n, alphabet,
                                                  dl::max(x), dl::argmax(x), dl::min(x), dl::argmin(x), dl::peak2peak(x), x[imx], imx, x[imn], imn));
    }
}

int main(int argc, char** argv) {
    vh::init(argc, argv, "C17");
    const bool thorough = vh::g.thorough();
    uint64_t idx = 0;
    const int eblocks = thorough ? 100000 : 3000;
    for (int b = 0; b < eblocks; ++b) {
        if (!vh::mine(idx++)) {
            continue;
        }
        vh::Rng r = vh::rng_for("elem", b);
        elementwise(r, 48);
    }
    const int rblocks = thorough ? 60000 : 3000;
    for (int b = 0; b < rblocks; ++b) {
        if (!vh::mine(idx++)) {
            continue;
        }
        vh::Rng r = vh::rng_for("red", b);
        const int n = (b < 40) ? (b + 1) : int(r.range(1, 1000));
        reductions(r, n);
        for (int t = 0; t < 8; ++t) {
            extrema_ties(r, int(r.range(1, 40)));
        }
    }
    if (vh::mine(idx++)) {
        vh::Rng r = vh::rng_for("shapes");
        shapes(r, thorough);
    }
    vh::obs_add("oracle_evaluations", double(g_case));
    vh::sample("angle((-1,0)) vs atan2l, power((-1,0), 0.5) vs principal branch, rms({3,4}) vs sqrt(12.5), arange(0,4,3) vs {0,3}, downsample(x[7],3,2) vs x[2::3]");
    return vh::finish();
}
