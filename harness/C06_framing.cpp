// C06 - streaming processors are invariant to how the stream is framed; instances are independent.
// Differential monitor over histories: one call on the whole stream (fresh instance) vs the concatenation over a framing.
#include "dsp.h"
#include "ma-filter.h"

#include <memory>

using namespace vd;
namespace dl = dsplib;

using Feed = std::function<void(const double* in, int nsamples, std::vector<double>& out)>;

struct Proc
{
    std::string name;
    std::string cfg;
    int width;     //doubles per input sample
    int granule;   //documented granularity in samples
    std::function<Feed()> make;
};

static arr_real mkr(const double* in, int n, int stride = 1, int off = 0) {
    arr_real x(n);
    for (int i = 0; i < n; ++i) {
        x[i] = in[i * stride + off];
    }
    return x;
}
static arr_cmplx mkc(const double* in, int n, int stride = 2, int off = 0) {
    arr_cmplx x(n);
    for (int i = 0; i < n; ++i) {
        x[i] = cmplx_t{in[i * stride + off], in[i * stride + off + 1]};
    }
    return x;
}
static void put(std::vector<double>& out, const arr_real& y) {
    for (int i = 0; i < y.size(); ++i) {
        out.push_back(y[i]);
    }
}
static void put(std::vector<double>& out, const arr_cmplx& y) {
    for (int i = 0; i < y.size(); ++i) {
        out.push_back(y[i].re);
        out.push_back(y[i].im);
    }
}

//two result channels of one call: interleaved per sample so that concatenation over frames is well defined
template<class A, class B>
static void put2(std::vector<double>& out, const A& a, const B& b) {
    std::vector<double> ta, tb;
    put(ta, a);
    put(tb, b);
    const size_t wa = a.size() ? ta.size() / a.size() : 0;
    const size_t wb = b.size() ? tb.size() / b.size() : 0;
    for (int i = 0; i < a.size() && i < b.size(); ++i) {
        for (size_t k = 0; k < wa; ++k) {
            out.push_back(ta[i * wa + k]);
        }
        for (size_t k = 0; k < wb; ++k) {
            out.push_back(tb[i * wb + k]);
        }
    }
    if (a.size() != b.size()) {
        out.push_back(1e300);   //channel length mismatch marker
    }
}

static arr_real rnd_h(vh::Rng& r, int n) {
    arr_real h(n);
    for (int i = 0; i < n; ++i) {
        h[i] = r.gauss();
    }
    return h;
}
static arr_real sym_h(vh::Rng& r, int n) {
    arr_real h(n);
    for (int i = 0; i < (n + 1) / 2; ++i) {
        h[i] = h[n - 1 - i] = 0.2 + r.uni();
    }
    return h;
}

//lock schedule on absolute sample indices for the adaptive filters
template<class F, class A>
static Feed adaptive_feed(std::shared_ptr<F> f, std::vector<int> toggles, bool cplx) {
    auto pos = std::make_shared<long>(0);
    auto locked = std::make_shared<bool>(false);
    return [=](const double* in, int n, std::vector<double>& out) {
        const int w = cplx ? 4 : 2;
        int done = 0;
        while (done < n) {
            //next toggle strictly after the current position
            long next = *pos + (n - done);
            for (int t : toggles) {
                if (t > *pos && t < next) {
                    next = t;
                }
            }
            for (int t : toggles) {
                if (t == *pos) {
                    *locked = !*locked;
                    f->set_lock_coeffs(*locked);
                }
            }
            const int m = int(next - *pos);
            A x(m), d(m);
            for (int i = 0; i < m; ++i) {
                if constexpr (std::is_same_v<A, arr_real>) {
                    x[i] = in[(done + i) * w];
                    d[i] = in[(done + i) * w + 1];
                } else {
                    x[i] = cmplx_t{in[(done + i) * w], in[(done + i) * w + 1]};
                    d[i] = cmplx_t{in[(done + i) * w + 2], in[(done + i) * w + 3]};
                }
            }
            auto r = f->process(x, d);
            put2(out, r.y, r.e);
            done += m;
            *pos += m;
        }
    };
}

static std::vector<Proc> make_procs(bool thorough) {
    std::vector<Proc> P;
    vh::Rng r = vh::rng_for("procs");
    auto add = [&](const std::string& name, const std::string& cfg, int width, int granule, std::function<Feed()> mk) {
        P.push_back({name, cfg, width, granule, std::move(mk)});
    };
    //direct FIR
    for (int nh : std::vector<int>{2, 3, 7, 33, 300}) {
        const arr_real h = rnd_h(r, nh);
        add("FirFilterR", vh::fmt("nh=%d", nh), 1, 1, [h] {
            auto f = std::make_shared<dl::FirFilterR>(h);
            return Feed([f](const double* in, int n, std::vector<double>& out) { put(out, f->process(mkr(in, n))); });
        });
        arr_cmplx hc(nh);
        for (int i = 0; i < nh; ++i) {
            hc[i] = cmplx_t{r.gauss(), r.gauss()};
        }
        add("FirFilterC", vh::fmt("nh=%d", nh), 2, 1, [hc] {
            auto f = std::make_shared<dl::FirFilterC>(hc);
            return Feed([f](const double* in, int n, std::vector<double>& out) { put(out, (*f)(mkc(in, n))); });
        });
    }
    //FFT FIR (any frame length; outputs compared as concatenation)
    for (int nh : std::vector<int>{2, 5, 17, 100}) {
        const arr_real h = rnd_h(r, nh);
        add("FftFilterR", vh::fmt("nh=%d", nh), 1, 1, [h] {
            auto f = std::make_shared<dl::FftFilter>(h);
            return Feed([f](const double* in, int n, std::vector<double>& out) { put(out, f->process(mkr(in, n))); });
        });
        arr_cmplx hc(nh);
        for (int i = 0; i < nh; ++i) {
            hc[i] = cmplx_t{r.gauss(), r.gauss()};
        }
        add("FftFilterC", vh::fmt("nh=%d", nh), 2, 1, [hc] {
            auto f = std::make_shared<dl::FftFilter>(hc);
            return Feed([f](const double* in, int n, std::vector<double>& out) { put(out, f->process(mkc(in, n))); });
        });
        //the mixed overloads of the same class: complex taps fed real frames, real taps fed complex frames
        add("FftFilter(complex taps, real input)", vh::fmt("nh=%d", nh), 1, 1, [hc] {
            auto f = std::make_shared<dl::FftFilter>(hc);
            return Feed([f](const double* in, int n, std::vector<double>& out) { put(out, f->process(mkr(in, n))); });
        });
        add("FftFilter(real taps, complex input)", vh::fmt("nh=%d", nh), 2, 1, [h] {
            auto f = std::make_shared<dl::FftFilter>(h);
            return Feed([f](const double* in, int n, std::vector<double>& out) { put(out, f->process(mkc(in, n))); });
        });
    }
    //multirate
    for (int M : std::vector<int>{1, 2, 3, 5, 12}) {
        add("FIRDecimator", vh::fmt("M=%d default", M), 1, M, [M] {
            auto f = std::make_shared<dl::FIRDecimator>(M);
            return Feed([f](const double* in, int n, std::vector<double>& out) { put(out, f->process(mkr(in, n))); });
        });
        const arr_real h = sym_h(r, 4 * M + 3);
        add("FIRDecimator", vh::fmt("M=%d custom nh=%d", M, h.size()), 1, M, [M, h] {
            auto f = std::make_shared<dl::FIRDecimator>(M, h);
            return Feed([f](const double* in, int n, std::vector<double>& out) { put(out, f->process(mkr(in, n))); });
        });
    }
    for (int L : std::vector<int>{1, 2, 3, 7, 12}) {
        add("FIRInterpolator", vh::fmt("L=%d default", L), 1, 1, [L] {
            auto f = std::make_shared<dl::FIRInterpolator>(L);
            return Feed([f](const double* in, int n, std::vector<double>& out) { put(out, f->process(mkr(in, n))); });
        });
        const arr_real h = sym_h(r, 3 * L + 2);
        add("FIRInterpolator", vh::fmt("L=%d custom nh=%d", L, h.size()), 1, 1, [L, h] {
            auto f = std::make_shared<dl::FIRInterpolator>(L, h);
            return Feed([f](const double* in, int n, std::vector<double>& out) { put(out, f->process(mkr(in, n))); });
        });
    }
    {
        std::vector<std::pair<int, int>> lm = {{2, 3}, {3, 2}, {5, 7}, {7, 5}, {3, 12}, {11, 4}, {160, 441}, {147, 160}};
        for (auto [L, M] : lm) {
            if (!thorough && L * M > 20000) {
                continue;
            }
            add("FIRRateConverter", vh::fmt("L=%d M=%d default", L, M), 1, M, [L = L, M = M] {
                auto f = std::make_shared<dl::FIRRateConverter>(L, M);
                return Feed([f](const double* in, int n, std::vector<double>& out) { put(out, f->process(mkr(in, n))); });
            });
            if (L <= 12 && M <= 12) {
                const arr_real h = sym_h(r, 5 * std::max(L, M) + 1);
                add("FIRRateConverter", vh::fmt("L=%d M=%d custom nh=%d", L, M, h.size()), 1, M, [L = L, M = M, h] {
                    auto f = std::make_shared<dl::FIRRateConverter>(L, M, h);
                    return Feed([f](const double* in, int n, std::vector<double>& out) { put(out, f->process(mkr(in, n))); });
                });
            }
        }
        std::vector<std::pair<int, int>> fs = {{48000, 16000}, {8000, 32000}, {44100, 48000}, {8000, 8000}, {16000, 44100}, {22050, 14700}};
        for (auto [o, i] : fs) {
            const int g = i / std::__gcd(o, i);
            add("FIRResampler", vh::fmt("out=%d in=%d", o, i), 1, g, [o = o, i = i] {
                auto f = std::make_shared<dl::FIRResampler>(o, i);
                return Feed([f](const double* in, int n, std::vector<double>& out) { put(out, f->process(mkr(in, n))); });
            });
        }
    }
    //delay
    for (int nd : std::vector<int>{1, 2, 7, 100}) {
        add("DelayReal", vh::fmt("nd=%d", nd), 1, 1, [nd] {
            auto f = std::make_shared<dl::DelayReal>(nd);
            return Feed([f](const double* in, int n, std::vector<double>& out) { put(out, f->process(mkr(in, n))); });
        });
        add("DelayCmplx", vh::fmt("nd=%d", nd), 2, 1, [nd] {
            auto f = std::make_shared<dl::DelayCmplx>(nd);
            return Feed([f](const double* in, int n, std::vector<double>& out) { put(out, (*f)(mkc(in, n))); });
        });
    }
    {
        const arr_real init = rnd_h(r, 5);
        add("DelayReal", "initial=5 values", 1, 1, [init] {
            auto f = std::make_shared<dl::DelayReal>(init);
            return Feed([f](const double* in, int n, std::vector<double>& out) { put(out, f->process(mkr(in, n))); });
        });
    }
    //median / moving average
    for (int n : std::vector<int>{3, 4, 5, 8, 33}) {
        add("MedianFilter", vh::fmt("order=%d", n), 1, 1, [n] {
            auto f = std::make_shared<dl::MedianFilter>(n, 0.25);
            return Feed([f](const double* in, int m, std::vector<double>& out) { put(out, f->process(mkr(in, m))); });
        });
    }
    for (int n : std::vector<int>{1, 2, 5, 64}) {
        add("MAFilterR", vh::fmt("n=%d", n), 1, 1, [n] {
            auto f = std::make_shared<dl::MAFilterR>(n);
            return Feed([f](const double* in, int m, std::vector<double>& out) { put(out, f->process(mkr(in, m))); });
        });
        add("MAFilterC", vh::fmt("n=%d", n), 2, 1, [n] {
            auto f = std::make_shared<dl::MAFilterC>(n);
            return Feed([f](const double* in, int m, std::vector<double>& out) { put(out, (*f)(mkc(in, m))); });
        });
    }
    //hilbert filter, tuner
    for (int fl : std::vector<int>{31, 32, 51, 101}) {
        add("HilbertFilter", vh::fmt("flen=%d", fl), 1, 1, [fl] {
            auto f = std::make_shared<dl::HilbertFilter>(fl, 0.05);
            return Feed([f](const double* in, int m, std::vector<double>& out) { put(out, f->process(mkr(in, m))); });
        });
    }
    {
        std::vector<std::pair<int, double>> tf = {{8, 1.0}, {8, 0.5}, {16, -3.25}, {100, 12.5}, {1000, 333.0}, {7, 2.0}};
        for (auto [fs, f0] : tf) {
            add("Tuner", vh::fmt("fs=%d f=%g", fs, f0), 2, 1, [fs = fs, f0 = f0] {
                auto f = std::make_shared<dl::Tuner>(fs, f0);
                return Feed([f](const double* in, int m, std::vector<double>& out) { put(out, f->process(mkc(in, m))); });
            });
        }
    }
    //agc
    for (int al : std::vector<int>{1, 7, 100}) {
        add("AgcR", vh::fmt("avg=%d", al), 1, 1, [al] {
            auto f = std::make_shared<dl::Agc>(0.5, 40.0, al, 0.02, 0.01);
            return Feed([f](const double* in, int m, std::vector<double>& out) {
                auto r = f->process(mkr(in, m));
                put2(out, r.out, r.gain);
            });
        });
        add("AgcC", vh::fmt("avg=%d", al), 2, 1, [al] {
            auto f = std::make_shared<dl::Agc>(2.0, 20.0, al, 0.01, 0.03);
            return Feed([f](const double* in, int m, std::vector<double>& out) {
                auto r = f->process(mkc(in, m));
                put2(out, r.out, r.gain);
            });
        });
    }
    //dynamics
    {
        struct D
        {
            int fs;
            double thr;
            int ratio;
            double knee, at, rt;
        };
        std::vector<D> ds = {{8000, -10, 5, 0, 0.001, 0.01}, {44100, -30, 2, 10, 0.0, 0.0}, {8000, -20, 50, 20, 0.01, 0.2}};
        for (const auto& d : ds) {
            add("Compressor", vh::fmt("fs=%d T=%g R=%d W=%g at=%g rt=%g", d.fs, d.thr, d.ratio, d.knee, d.at, d.rt), 1, 1, [d] {
                auto f = std::make_shared<dl::Compressor>(d.fs, d.thr, d.ratio, d.knee, d.at, d.rt);
                return Feed([f](const double* in, int m, std::vector<double>& out) {
                    auto r = f->process(mkr(in, m));
                    put2(out, r.out, r.gain);
                });
            });
            add("Limiter", vh::fmt("fs=%d T=%g W=%g at=%g rt=%g", d.fs, d.thr, d.knee, d.at, d.rt), 1, 1, [d] {
                auto f = std::make_shared<dl::Limiter>(d.fs, d.thr, d.knee, d.at, d.rt);
                return Feed([f](const double* in, int m, std::vector<double>& out) {
                    auto r = (*f)(mkr(in, m));
                    put2(out, r.out, r.gain);
                });
            });
            add("NoiseGate", vh::fmt("fs=%d T=%g at=%g rt=%g hold=%g", d.fs, d.thr, d.at, d.rt, d.at), 1, 1, [d] {
                auto f = std::make_shared<dl::NoiseGate>(d.fs, d.thr, d.at, d.rt, d.at);
                return Feed([f](const double* in, int m, std::vector<double>& out) {
                    auto r = f->process(mkr(in, m));
                    put2(out, r.out, r.gain);
                });
            });
        }
    }
    //adaptive
    for (int L : std::vector<int>{2, 3, 8}) {
        const std::vector<int> tog = {5, 9, 10, 40, 300, 301, 5000};
        add("LmsFilterR/LMS", vh::fmt("L=%d mu=0.02", L), 2, 1, [L, tog] { return adaptive_feed<dl::LmsFilterR, arr_real>(std::make_shared<dl::LmsFilterR>(L, 0.02), tog, false); });
        add("LmsFilterR/NLMS", vh::fmt("L=%d mu=0.7 leak=0.999", L), 2, 1,
            [L, tog] { return adaptive_feed<dl::LmsFilterR, arr_real>(std::make_shared<dl::LmsFilterR>(L, 0.7, dl::LmsType::NLMS, 0.999), tog, false); });
        add("LmsFilterC/LMS", vh::fmt("L=%d mu=0.01", L), 4, 1, [L, tog] { return adaptive_feed<dl::LmsFilterC, arr_cmplx>(std::make_shared<dl::LmsFilterC>(L, 0.01), tog, true); });
        add("LmsFilterC/NLMS", vh::fmt("L=%d mu=1.0", L), 4, 1,
            [L, tog] { return adaptive_feed<dl::LmsFilterC, arr_cmplx>(std::make_shared<dl::LmsFilterC>(L, 1.0, dl::LmsType::NLMS), tog, true); });
        add("RlsFilterR", vh::fmt("L=%d lambda=0.98 load=10", L), 2, 1, [L, tog] { return adaptive_feed<dl::RlsFilterR, arr_real>(std::make_shared<dl::RlsFilterR>(L, 0.98, 10.0), tog, false); });
        add("RlsFilterC", vh::fmt("L=%d lambda=0.99 load=1", L), 4, 1, [L, tog] { return adaptive_feed<dl::RlsFilterC, arr_cmplx>(std::make_shared<dl::RlsFilterC>(L, 0.99, 1.0), tog, true); });
    }
    return P;
}

static std::vector<double> make_stream(vh::Rng& r, int nsamples, int width) {
    std::vector<double> s(size_t(nsamples) * width);
    //level changes exercise attack/release/hold and the gate counters
    double level = 1.0;
    for (int i = 0; i < nsamples; ++i) {
        if (r.below(13) == 0) {
            level = std::pow(10.0, r.uni(-3.0, 0.5));   //frequent level changes: gates open/close, hold counters run, knees are crossed
        }
        for (int k = 0; k < width; ++k) {
            s[size_t(i) * width + k] = r.gauss() * level;
        }
        if (r.below(53) == 0) {
            for (int k = 0; k < width; ++k) {
                s[size_t(i) * width + k] = 0.0;   //exact silence
            }
        }
    }
    //runs of exact digital silence (whole frames of zeros occur once the stream is framed) and runs of one constant value
    const int nruns = 1 + int(r.below(3));
    for (int q = 0; q < nruns && nsamples >= 4; ++q) {
        const int len = 1 + int(r.below(uint64_t(std::max(1, nsamples / 2))));
        const int at = int(r.below(uint64_t(nsamples - std::min(len, nsamples - 1))));
        const bool constant = (r.below(4) == 0);
        const double cv = r.gauss();
        for (int i = at; i < std::min(nsamples, at + len); ++i) {
            for (int k = 0; k < width; ++k) {
                s[size_t(i) * width + k] = constant ? cv : 0.0;
            }
        }
    }
    return s;
}

static bool compare(const Proc& p, const std::string& what, const std::vector<double>& whole, const std::vector<double>& framed, const std::string& framing) {
    if (whole.size() != framed.size()) {
        vh::violation(vh::fmt("C06/%s/count", p.name.c_str()),
                      vh::fmt("%s [%s] %s: whole stream gives %zu output values, framing gives %zu; framing=%s", p.name.c_str(), p.cfg.c_str(), what.c_str(), whole.size(), framed.size(), framing.c_str()));
        return false;
    }
    double scale = 1e-300;
    for (double v : whole) {
        if (std::isfinite(v)) {
            scale = std::max(scale, std::fabs(v));
        }
    }
    for (size_t i = 0; i < whole.size(); ++i) {
        const double a = whole[i];
        const double b = framed[i];
        const bool same_nonfinite = (!std::isfinite(a) && !std::isfinite(b));
        if (same_nonfinite) {
            continue;
        }
        if (!(std::fabs(a - b) <= 1e-12 * scale)) {
            vh::violation(vh::fmt("C06/%s/value", p.name.c_str()), vh::fmt("%s [%s] %s: output value %zu differs: whole=%.17g framed=%.17g (scale %.3g); framing=%s", p.name.c_str(), p.cfg.c_str(),
                                                                          what.c_str(), i, a, b, scale, framing.c_str()));
            return false;
        }
        if (a != b) {
            vh::obs_add("outputs_equal_within_tolerance_but_not_bitwise");
        }
    }
    return true;
}

static std::string show(const std::vector<int>& fr) {
    std::string s = "[";
    for (size_t i = 0; i < fr.size() && i < 24; ++i) {
        s += vh::fmt("%s%d", i ? "," : "", fr[i]);
    }
    if (fr.size() > 24) {
        s += vh::fmt(",...(%zu frames)", fr.size());
    }
    return s + "] granules";
}

static std::vector<double> run_framed(const Proc& p, const std::vector<double>& stream, const std::vector<int>& frames) {
    Feed f = p.make();
    std::vector<double> out;
    size_t pos = 0;
    for (int g : frames) {
        const int ns = g * p.granule;
        f(stream.data() + pos * p.width, ns, out);
        pos += size_t(ns);
    }
    return out;
}

//the same framed run with calls of an inadmissible length (not a multiple of the granule) attempted at some frame boundaries: each
//must be rejected with an exception and is not part of the stream. Returns false if such a call was accepted (then nothing is judged).
static bool run_framed_with_rejects(const Proc& p, const std::vector<double>& stream, const std::vector<int>& frames, vh::Rng& r, std::vector<double>& out, int* rejected) {
    Feed f = p.make();
    out.clear();
    size_t pos = 0;
    std::vector<double> junk(size_t(3 * p.granule + 8) * p.width);
    for (auto& v : junk) {
        v = 4 * r.gauss();
    }
    for (int g : frames) {
        if (r.below(3) == 0) {
            const int bad = int(r.range(1, 3 * p.granule));
            if (bad % p.granule != 0) {
                std::vector<double> tmp;
                try {
                    f(junk.data(), bad, tmp);
                    return false;
                } catch (const std::exception&) {
                    ++*rejected;
                }
            }
        }
        const int ns = g * p.granule;
        f(stream.data() + pos * p.width, ns, out);
        pos += size_t(ns);
    }
    return true;
}

int main(int argc, char** argv) {
    vh::init(argc, argv, "C06");
    const bool thorough = vh::g.thorough();
    const auto procs = make_procs(thorough);
    uint64_t idx = 0;
    const double scale = atof(vh::opt("scale", "1").c_str());
    const int kmax = int(atof(vh::opt("kmax", thorough ? "14" : "9").c_str()));

    //---- exhaustive compositions of k granules
    for (size_t pi = 0; pi < procs.size(); ++pi) {
        const Proc& p = procs[pi];
        if (!vh::selected(p.name.c_str())) {
            continue;
        }
        for (int k = 1; k <= kmax; ++k) {
            if (p.granule * k > 6000 && k > 6) {
                continue;   //the very large granules (160/441) are enumerated to k=6 only
            }
            if (!vh::mine(idx++)) {
                continue;
            }
            vh::begin_case(p.name.c_str(), "%s exhaustive k=%d", p.cfg.c_str(), k);
            vh::Rng r = vh::rng_for("exh", pi * 100 + k);
            const auto stream = make_stream(r, k * p.granule, p.width);
            const auto whole = run_framed(p, stream, {k});
            for (uint32_t mask = 0; mask < (1u << (k - 1)); ++mask) {
                std::vector<int> fr;
                int cur = 1;
                for (int b = 0; b < k - 1; ++b) {
                    if (mask & (1u << b)) {
                        fr.push_back(cur);
                        cur = 1;
                    } else {
                        ++cur;
                    }
                }
                fr.push_back(cur);
                const auto framed = run_framed(p, stream, fr);
                vh::Hasher h;
                h.s(p.name).s(p.cfg).i(k).u64(mask);
                vh::count(h.get(), fr.size() > 1);
                compare(p, "exhaustive", whole, framed, show(fr));
            }
            vh::obs_add("exhaustive_streams");
        }
    }
    vh::sample("exhaustive: every composition of k<=kmax granules, e.g. FirFilterR nh=7, k=5: [1,1,1,1,1], [2,3], [4,1], ... (16 framings) vs one call on 5 samples");

    //---- random heavy-tailed framings of long streams
    const int nrand = int((thorough ? 60 : 3) * scale + 0.5);
    const int maxlen = thorough ? 100000 : 10000;
    for (size_t pi = 0; pi < procs.size(); ++pi) {
        const Proc& p = procs[pi];
        if (!vh::selected(p.name.c_str())) {
            continue;
        }
        for (int t = 0; t < nrand; ++t) {
            if (!vh::mine(idx++)) {
                continue;
            }
            vh::Rng r = vh::rng_for("rand", pi * 1000 + t);
            int total = int(std::exp(r.uni(std::log(50.0), std::log(double(maxlen)))));
            if (p.name.rfind("Rls", 0) == 0 || p.name.rfind("Lms", 0) == 0) {
                total = std::min(total, 20000);
            }
            const int ng = std::max(2, total / p.granule);
            vh::begin_case(p.name.c_str(), "%s random framing granules=%d", p.cfg.c_str(), ng);
            const auto stream = make_stream(r, ng * p.granule, p.width);
            std::vector<int> fr;
            int left = ng;
            while (left > 0) {
                //heavy tail: 1 .. 4096 granules
                int g = int(std::exp(r.uni(0.0, std::log(4096.0)) * r.uni()));
                g = std::max(1, std::min(g, left));
                fr.push_back(g);
                left -= g;
            }
            const auto whole = run_framed(p, stream, {ng});
            const auto framed = run_framed(p, stream, fr);
            vh::Hasher h;
            h.s("rand").s(p.name).s(p.cfg).i(t).i(ng);
            vh::count(h.get(), fr.size() > 1);
            vh::obs_add("random_framings");
            vh::obs_max("longest_stream_samples", double(ng) * p.granule);
            compare(p, "random framing", whole, framed, show(fr));
            if (p.granule > 1) {
                std::vector<double> fr2;
                int rejected = 0;
                if (run_framed_with_rejects(p, stream, fr, r, fr2, &rejected)) {
                    vh::obs_add("rejected_calls_inside_framed_runs", rejected);
                    compare(p, "random framing with rejected calls in between", whole, fr2, show(fr));
                } else {
                    vh::skip("inadmissible_frame_length_accepted");
                }
            }
            if (pi == 0 && t == 0) {
                vh::sample(vh::fmt("%s [%s] stream of %d granules framed as %s", p.name.c_str(), p.cfg.c_str(), ng, show(fr).c_str()));
            }
        }
    }

    //---- interleaved instances (hidden shared state)
    for (size_t pi = 0; pi < procs.size(); ++pi) {
        const Proc& p = procs[pi];
        if (!vh::selected(p.name.c_str()) || !vh::mine(idx++)) {
            continue;
        }
        vh::begin_case(p.name.c_str(), "%s interleaved instances", p.cfg.c_str());
        vh::Rng r = vh::rng_for("inter", pi);
        const int ng = 40;
        const auto s1 = make_stream(r, ng * p.granule, p.width);
        const auto s2 = make_stream(r, ng * p.granule, p.width);
        const auto solo1 = run_framed(p, s1, {ng});
        const auto solo2 = run_framed(p, s2, {ng});
        //also a processor of another configuration runs in between
        const Proc& other = procs[(pi + 1) % procs.size()];
        Feed f1 = p.make();
        Feed f2 = p.make();
        Feed f3 = other.make();
        const auto s3 = make_stream(r, ng * other.granule, other.width);
        std::vector<double> o1, o2, o3;
        size_t p1 = 0, p2 = 0, p3 = 0;
        int left1 = ng, left2 = ng, left3 = ng;
        while (left1 > 0 || left2 > 0) {
            if (left1 > 0) {
                const int g = std::min(left1, int(r.range(1, 7)));
                f1(s1.data() + p1 * p.width, g * p.granule, o1);
                p1 += size_t(g) * p.granule;
                left1 -= g;
            }
            if (left3 > 0) {
                const int g = std::min(left3, int(r.range(1, 5)));
                f3(s3.data() + p3 * other.width, g * other.granule, o3);
                p3 += size_t(g) * other.granule;
                left3 -= g;
            }
            if (left2 > 0) {
                const int g = std::min(left2, int(r.range(1, 7)));
                f2(s2.data() + p2 * p.width, g * p.granule, o2);
                p2 += size_t(g) * p.granule;
                left2 -= g;
            }
        }
        vh::Hasher h;
        h.s("inter").s(p.name).s(p.cfg);
        vh::count(h.get(), true);
        vh::obs_add("interleaved_instance_pairs");
        compare(p, "interleaved instance 1", solo1, o1, "interleaved with a second instance and another processor");
        compare(p, "interleaved instance 2", solo2, o2, "interleaved with a second instance and another processor");
    }
    vh::obs_max("processor_configurations", double(procs.size()));
    vh::g.exhaustive = true;
    return vh::finish();
}
