// C07 - FIR filtering and correlation equal their defining sums.
#include "dsp.h"
#include "ma-filter.h"

using namespace vd;
namespace dl = dsplib;

//y[i] = sum_k conj(c[k]) x[i-k], from rest; also returns the magnitude sum for the tolerance
static void fir_ref(const CV& c, const CV& x, CV& y, RV& mag) {
    const int m = int(c.size());
    const int n = int(x.size());
    y.assign(n, C{});
    mag.assign(n, 0);
    std::vector<ld> ca(m), xa(n);
    for (int k = 0; k < m; ++k) {
        ca[k] = ref::cabs(c[k]);
    }
    for (int i = 0; i < n; ++i) {
        xa[i] = ref::cabs(x[i]);
    }
    for (int i = 0; i < n; ++i) {
        ld sr = 0, si = 0, sm = 0;
        const int kmax = std::min(m - 1, i);
        for (int k = 0; k <= kmax; ++k) {
            const C& cc = c[k];
            const C& xx = x[i - k];
            //conj(c)*x
            sr += cc.re * xx.re + cc.im * xx.im;
            si += cc.re * xx.im - cc.im * xx.re;
            sm += ca[k] * xa[i - k];
        }
        y[i] = {sr, si};
        mag[i] = sm;
    }
}

enum CoefKind
{
    RANDOM,
    SYMMETRIC,
    SPARSE,
    TAP_FIRST,
    TAP_LAST
};
static const char* CKN[] = {"random", "symmetric", "sparse", "tap_first", "tap_last"};

static arr_cmplx make_coeffs(vh::Rng& r, int m, CoefKind k, bool cplx) {
    arr_cmplx h(m);
    auto val = [&]() {
        return cplx ? cmplx_t{r.gauss(), r.gauss()} : cmplx_t{r.gauss(), 0};
    };
    switch (k) {
    case RANDOM:
        for (int i = 0; i < m; ++i) {
            h[i] = val();
        }
        break;
    case SYMMETRIC:
        for (int i = 0; i < (m + 1) / 2; ++i) {
            h[i] = h[m - 1 - i] = val();
        }
        break;
    case SPARSE:
        for (int i = 0; i < m; ++i) {
            if (r.below(8) == 0) {
                h[i] = val();
            }
        }
        h[int(r.below(m))] = val();
        break;
    case TAP_FIRST:
        h[0] = val();
        break;
    case TAP_LAST:
        h[m - 1] = val();
        break;
    }
    return h;
}

static arr_cmplx make_input(vh::Rng& r, int n, int kind, bool cplx) {
    arr_cmplx x(n);
    if (kind == 3) {
        //burst - exact silence - burst: whole blocks of exact zeros between two active stretches
        const int a = std::max(1, n / 7);
        for (int i = 0; i < n; ++i) {
            if (i < a || i >= n - a) {
                x[i] = cplx ? cmplx_t{r.gauss(), r.gauss()} : cmplx_t{r.gauss(), 0};
            }
        }
        return x;
    }
    for (int i = 0; i < n; ++i) {
        double s = 1.0;
        if (kind == 2) {
            s = std::fabs(r.logmag(1e-12, 1e12));
        }
        if (kind == 1) {
            //impulsive
            if (r.below(17) != 0) {
                continue;
            }
            s = 10.0;
        }
        x[i] = cplx ? cmplx_t{r.gauss() * s, r.gauss() * s} : cmplx_t{r.gauss() * s, 0};
    }
    return x;
}

static void check_fir(int m, int n, CoefKind ck, int ik, bool cplx, vh::Rng& r) {
    const arr_cmplx h = make_coeffs(r, m, ck, cplx);
    const arr_cmplx x = make_input(r, n, ik, cplx);
    vh::begin_case("fir", "m=%d n=%d coeffs=%s input=%d %s", m, n, CKN[ck], ik, cplx ? "complex" : "real");
    CV yref;
    RV mag;
    fir_ref(to_ref(h), to_ref(x), yref, mag);
    const std::string cfg = vh::fmt("m=%d n=%d coeffs=%s input_kind=%d %s", m, n, CKN[ck], ik, cplx ? "complex" : "real");
    vh::Hasher hh;
    hh.s("fir").i(m).i(n).i(ck).i(ik).i(cplx).u64(hash_arr(h)).u64(hash_arr(x));
    vh::count(hh.get(), n > 0);

    //---- direct form
    arr_cmplx yd;
    if (cplx) {
        dl::FirFilterC f(h);
        yd = f.process(x);
    } else {
        dl::FirFilterR f(dl::real(h));
        yd = dl::complex(f.process(dl::real(x)));
    }
    if (yd.size() != n) {
        vh::violation("C07/direct/count", cfg + vh::fmt(": FirFilter returned %d samples for %d inputs", yd.size(), n));
    } else {
        for (int i = 0; i < n; ++i) {
            const ld err = ref::cabs(C{yd[i].re, yd[i].im} - yref[i]);
            //worst-case bound of an m-term (complex) inner product: gamma_(m+2) * sum|c||x|
            const ld tol = std::max(8, m + 4) * ref::EPS * mag[i];
            if (mag[i] > 0) {
                vh::obs_max("direct_err_over_eps_mag", double(err / (ref::EPS * mag[i])));
            }
            if (!(err <= tol)) {
                vh::violation(vh::fmt("C07/direct/value/%s", cplx ? "complex" : "real"),
                              cfg + vh::fmt(": y[%d]=(%.17g,%.17g) expected (%.17Lg,%.17Lg), |err|=%.3Le > max(8,m+4)*eps*sum|c||x|=%.3Le", i, yd[i].re, yd[i].im, yref[i].re, yref[i].im, err, tol));
                break;
            }
        }
    }

    //---- direct form fed as a stream: the same input in frames of very different lengths (long, short, empty, long ...) must give
    //the same sums - the filter started from rest once, not per call
    if (n >= 4) {
        arr_cmplx ys;
        dl::FirFilterC fc(cplx ? h : arr_cmplx(h));
        dl::FirFilterR fr(dl::real(h));
        int pos = 0;
        int turn = 0;
        while (pos < n) {
            int len;
            switch (turn++ % 4) {
            case 0: len = int(r.range(n / 4 + 1, n / 2 + 1)); break;   //long
            case 1: len = int(r.range(1, std::max(1, n / 16)));  break;   //short
            case 2: len = (r.coin() ? 0 : 1); break;                       //empty or single
            default: len = int(r.range(1, std::max(2, n / 3))); break;
            }
            len = std::min(len, n - pos);
            arr_cmplx fx(len);
            for (int i = 0; i < len; ++i) {
                fx[i] = x[pos + i];
            }
            if (cplx) {
                ys |= fc.process(fx);
            } else {
                ys |= dl::complex(fr.process(dl::real(fx)));
            }
            pos += len;
        }
        vh::obs_add("direct_streams_in_uneven_frames");
        bool ok = ys.size() == n;
        int bad = -1;
        for (int i = 0; ok && i < n; ++i) {
            const ld err = ref::cabs(C{ys[i].re, ys[i].im} - yref[i]);
            if (!(err <= std::max(8, m + 4) * ref::EPS * mag[i])) {
                ok = false;
                bad = i;
            }
        }
        if (!ok) {
            vh::violation(vh::fmt("C07/direct/stream_value/%s", cplx ? "complex" : "real"),
                          cfg + vh::fmt(": fed in frames of uneven length (long, short, empty, ...) the output has %d samples and sample %d is not the convolution sum", ys.size(), bad));
        }
    }

    //---- taps edited in place through the non-const coeffs() accessor between two calls: from then on the output is the sum with
    //the coefficient vector the filter reports (the input history is kept)
    if (n >= 8 && m >= 2) {
        const int n1 = n / 2;
        arr_cmplx h2 = h;
        const int ke = int(r.below(uint64_t(m)));
        h2[ke] = h2[ke] + cmplx_t{1.5, cplx ? -0.75 : 0.0};
        if (m > 2) {
            h2[(ke + 1) % m] = cmplx_t{0, 0};
        }
        arr_cmplx ye;
        arr_cmplx x1(n1), x2(n - n1);
        for (int i = 0; i < n1; ++i) {
            x1[i] = x[i];
        }
        for (int i = n1; i < n; ++i) {
            x2[i - n1] = x[i];
        }
        bool reported_ok = true;
        if (cplx) {
            dl::FirFilterC f(h);
            ye = f.process(x1);
            f.coeffs()[ke] = h2[ke];
            if (m > 2) {
                f.coeffs()[(ke + 1) % m] = h2[(ke + 1) % m];
            }
            const dl::FirFilterC& cf = f;
            reported_ok = bit_equal(cf.coeffs(), h2);
            ye |= f.process(x2);
        } else {
            dl::FirFilterR f(dl::real(h));
            ye = dl::complex(f.process(dl::real(x1)));
            f.coeffs()[ke] = h2[ke].re;
            if (m > 2) {
                f.coeffs()[(ke + 1) % m] = h2[(ke + 1) % m].re;
            }
            const dl::FirFilterR& cf = f;
            reported_ok = bit_equal(cf.coeffs(), dl::real(h2));
            ye |= dl::complex(f.process(dl::real(x2)));
        }
        CV yref2;
        RV mag2;
        fir_ref(to_ref(h2), to_ref(x), yref2, mag2);
        vh::obs_add("coefficient_edits_through_accessor");
        bool ok = reported_ok && ye.size() == n;
        int bad = -1;
        for (int i = 0; ok && i < n; ++i) {
            const C want = (i < n1) ? yref[i] : yref2[i];
            const ld mg = (i < n1) ? mag[i] : mag2[i];
            if (!(ref::cabs(C{ye[i].re, ye[i].im} - want) <= std::max(8, m + 4) * ref::EPS * mg)) {
                ok = false;
                bad = i;
            }
        }
        if (!ok) {
            vh::violation(vh::fmt("C07/direct/coeffs_accessor/%s", cplx ? "complex" : "real"),
                          cfg + vh::fmt(": after editing tap %d through coeffs() between two calls (split at %d) output sample %d is not the sum with the coefficients the filter reports (coeffs() reports the edit: %s)", ke,
                                        n1, bad, reported_ok ? "yes" : "no"));
        }
    }

    //---- FFT form
    dl::FftFilter ff = cplx ? dl::FftFilter(h) : dl::FftFilter(dl::real(h));
    const int blk = ff.block_size();
    arr_cmplx yf = cplx ? ff.process(x) : dl::complex(ff.process(dl::real(x)));
    const int want = (n / blk) * blk;
    int fftlen = 1;
    while (fftlen < 2 * m) {
        fftlen <<= 1;
    }
    if (blk != fftlen - m + 1) {
        vh::violation("C07/fft/block_size", cfg + vh::fmt(": block_size()=%d, expected fftlen-m+1=%d", blk, fftlen - m + 1));
    }
    if (yf.size() != want) {
        vh::violation("C07/fft/count", cfg + vh::fmt(": FftFilter emitted %d samples, expected floor(%d/%d)*%d=%d", yf.size(), n, blk, blk, want));
        return;
    }
    vh::obs_add(want > 0 ? "fft_cases_with_output" : "fft_cases_without_output");
    ld sumc = 0;
    for (int k = 0; k < m; ++k) {
        sumc += hypotl(ld(h[k].re), ld(h[k].im));
    }
    const ld lg = log2l(ld(fftlen));
    for (int b = 0; b < want / blk; ++b) {
        //overlap-add: the rounding noise of the previous frame's transform reaches this block through the saved tail
        ld mx = 0;
        for (int i = std::max(0, (b - 1) * blk); i < (b + 1) * blk; ++i) {
            mx = std::max(mx, hypotl(ld(x[i].re), ld(x[i].im)));
        }
        const ld tol = 64 * ref::EPS * lg * sumc * mx;
        for (int i = b * blk; i < (b + 1) * blk; ++i) {
            const ld err = ref::cabs(C{yf[i].re, yf[i].im} - yref[i]);
            if (tol > 0) {
                vh::obs_max("fft_err_over_tol", double(err / tol));
            }
            if (!(err <= tol)) {
                vh::violation(vh::fmt("C07/fft/value/%s", cplx ? "complex" : "real"),
                              cfg + vh::fmt(": FftFilter y[%d]=(%.17g,%.17g) expected (%.17Lg,%.17Lg), |err|=%.3Le > %.3Le (block %d of size %d, fft %d)", i, yf[i].re, yf[i].im, yref[i].re,
                                            yref[i].im, err, tol, b, blk, fftlen));
                return;
            }
            //same sequence as the direct filter
            if (yd.size() == n) {
                const ld e2 = hypotl(ld(yf[i].re) - yd[i].re, ld(yf[i].im) - yd[i].im);
                if (!(e2 <= tol + std::max(8, m + 4) * ref::EPS * mag[i])) {
                    vh::violation(vh::fmt("C07/fft_vs_direct/%s", cplx ? "complex" : "real"), cfg + vh::fmt(": sample %d: FftFilter (%.17g,%.17g) vs FirFilter (%.17g,%.17g)", i, yf[i].re, yf[i].im, yd[i].re, yd[i].im));
                    return;
                }
            }
        }
    }
}

static void check_xcorr(int n1, int n2, bool cplx, vh::Rng& r) {
    vh::begin_case("xcorr", "n1=%d n2=%d %s", n1, n2, cplx ? "complex" : "real");
    arr_cmplx a = make_input(r, n1, int(r.below(3) == 0 ? r.below(4) : 0), cplx);
    arr_cmplx b = make_input(r, n2, 0, cplx);
    //the two sequences live on independent scales (the defining sum is bilinear, so its rounding error scales with |a||b|)
    if (r.below(2) == 0) {
        const double sa = std::pow(10.0, r.uni(-10, 10));
        const double sb = std::pow(10.0, r.uni(-10, 10));
        a *= sa;
        b *= sb;
        vh::obs_add("xcorr_pairs_on_different_scales");
    }
    if (norm2(a) == 0 || norm2(b) == 0) {
        a[0] = cmplx_t{1, 0};
        b[0] = cmplx_t{1, 0};
    }
    arr_cmplx z;
    if (cplx) {
        z = dl::xcorr(a, b);
    } else {
        z = dl::complex(dl::xcorr(dl::real(a), dl::real(b)));
    }
    vh::Hasher hh;
    hh.s("xcorr").i(n1).i(n2).i(cplx).u64(hash_arr(a)).u64(hash_arr(b));
    vh::count(hh.get(), true);
    const std::string cfg = vh::fmt("xcorr n1=%d n2=%d %s", n1, n2, cplx ? "complex" : "real");
    if (z.size() != n1 + n2 - 1) {
        vh::violation("C07/xcorr/length", cfg + vh::fmt(": %d values, expected %d", z.size(), n1 + n2 - 1));
        return;
    }
    int M = 1;
    while (M < n1 + n2 - 1) {
        M <<= 1;
    }
    const ld tol = 64 * ref::EPS * std::max<ld>(1, log2l(ld(M))) * norm2(a) * norm2(b);
    const CV ar = to_ref(a);
    const CV br = to_ref(b);
    for (int j = 0; j < n1 + n2 - 1; ++j) {
        const int lag = j - (n2 - 1);
        ld sr = 0, si = 0;
        for (int n = 0; n < n2; ++n) {
            const int ia = n + lag;
            if (ia < 0 || ia >= n1) {
                continue;
            }
            //a[n+lag] * conj(b[n])
            sr += ar[ia].re * br[n].re + ar[ia].im * br[n].im;
            si += ar[ia].im * br[n].re - ar[ia].re * br[n].im;
        }
        const ld err = hypotl(ld(z[j].re) - sr, ld(z[j].im) - si);
        vh::obs_max("xcorr_err_over_tol", double(err / tol));
        if (!(err <= tol)) {
            vh::violation(vh::fmt("C07/xcorr/value/%s", cplx ? "complex" : "real"), cfg + vh::fmt(": lag %d (index %d): got (%.17g,%.17g) expected (%.17Lg,%.17Lg), |err|=%.3Le > %.3Le", lag, j, z[j].re, z[j].im, sr, si, err, tol));
            return;
        }
    }
    //autocorrelation overloads
    if (n1 == n2) {
        arr_cmplx za = cplx ? dl::xcorr(a) : dl::complex(dl::xcorr(dl::real(a)));
        arr_cmplx zb = cplx ? dl::xcorr(a, a) : dl::complex(dl::xcorr(dl::real(a), dl::real(a)));
        if (za.size() != zb.size() || diff2(za, zb) > tol) {
            vh::violation("C07/xcorr/auto_overload", cfg + ": xcorr(x) differs from xcorr(x,x)");
        }
    }
}

static void check_ma(int n, int len, bool cplx, vh::Rng& r) {
    vh::begin_case("mafilter", "n=%d len=%d %s", n, len, cplx ? "complex" : "real");
    const arr_cmplx x = make_input(r, len, int(r.below(4)), cplx);
    arr_cmplx y;
    arr_cmplx yf;
    if (cplx) {
        dl::MAFilterC ma(n);
        y = ma.process(x);
        if (n >= 2) {
            dl::FirFilterC f(dl::complex(dl::ones(n) / n));
            yf = f.process(x);
        } else {
            yf = x;   //a one-tap FIR is outside the quantifier (lengths 2..1024); n=1 averages nothing
        }
    } else {
        dl::MAFilterR ma(n);
        y = dl::complex(ma.process(dl::real(x)));
        if (n >= 2) {
            dl::FirFilterR f(dl::ones(n) / n);
            yf = dl::complex(f.process(dl::real(x)));
        } else {
            yf = x;
        }
    }
    vh::Hasher hh;
    hh.s("ma").i(n).i(len).i(cplx).u64(hash_arr(x));
    vh::count(hh.get(), len > 0);
    const std::string cfg = vh::fmt("MAFilter n=%d len=%d %s", n, len, cplx ? "complex" : "real");
    if (y.size() != len) {
        vh::violation("C07/mafilter/count", cfg + vh::fmt(": %d outputs", y.size()));
        return;
    }
    for (int i = 0; i < len; ++i) {
        //exact window sum: the reference carries no drift
        ld sr = 0, si = 0;
        for (int k = std::max(0, i - n + 1); k <= i; ++k) {
            sr += x[k].re;
            si += x[k].im;
        }
        //an n-tap FIR only carries the rounding of its current window; a running sum that is re-summed at least every n samples
        //carries that of the last 2n samples: the tolerance scale is the largest magnitude among the last 2n inputs
        ld mx = 0;
        for (int k = std::max(0, i - 2 * n + 1); k <= i; ++k) {
            mx = std::max(mx, hypotl(ld(x[k].re), ld(x[k].im)));
        }
        const ld tol = (4 * n + 16) * ref::EPS * mx + 1e-300L;
        const ld err = hypotl(ld(y[i].re) - sr / n, ld(y[i].im) - si / n);
        const ld e2 = hypotl(ld(y[i].re) - yf[i].re, ld(y[i].im) - yf[i].im);
        if (mx > 0) {
            vh::obs_max("ma_err_over_n_eps_max", double(err / (n * ref::EPS * mx)));
        }
        if (!(err <= tol) || !(e2 <= tol)) {
            vh::violation(vh::fmt("C07/mafilter/value/%s", cplx ? "complex" : "real"),
                          cfg + vh::fmt(": y[%d]=(%.17g,%.17g), running mean (%.17Lg,%.17Lg), FIR with equal taps (%.17g,%.17g)", i, y[i].re, y[i].im, sr / n, si / n, yf[i].re, yf[i].im));
            return;
        }
    }
}

int main(int argc, char** argv) {
    vh::init(argc, argv, "C07");
    const bool thorough = vh::g.thorough();
    uint64_t idx = 0;

    //coefficient lengths: all 2..64, every block boundary (m around 2^k), sampled others
    std::vector<int> ms;
    for (int m = 2; m <= (thorough ? 1024 : 128); ++m) {
        ms.push_back(m);
    }
    for (int k = 7; k <= (thorough ? 0 : 10); ++k) {
        for (int d = -2; d <= 2; ++d) {
            const int m = (1 << k) + d;
            if (m <= 1024) {
                ms.push_back(m);
            }
        }
    }
    {
        vh::Rng r = vh::rng_for("ms");
        const int extra = thorough ? 0 : 40;
        for (int i = 0; i < extra; ++i) {
            ms.push_back(int(r.range(65, 1024)));
        }
    }
    for (size_t mi = 0; mi < ms.size(); ++mi) {
        const int m = ms[mi];
        int fftlen = 1;
        while (fftlen < 2 * m) {
            fftlen <<= 1;
        }
        const int blk = fftlen - m + 1;
        //input lengths around the block boundaries and a few others
        std::vector<int> ns = {0, 1, m - 1, m, blk - 1, blk, blk + 1, 2 * blk, 2 * blk + 1, 3 * blk - 1, 4 * blk + 1};
        if (m <= 64) {
            ns.push_back(7 * blk + 3);
        }
        for (size_t ni = 0; ni < ns.size(); ++ni) {
            for (int cplx = 0; cplx < 2; ++cplx) {
                if (!vh::mine(idx++)) {
                    continue;
                }
                vh::Rng r = vh::rng_for("fir", (uint64_t(mi) * 100 + ni) * 2 + cplx);
                for (int rep = 0; rep < (thorough && m <= 256 ? 3 : 1); ++rep) {
                    const CoefKind ck = CoefKind(r.below(5));
                    const int ik = int(r.below(4));
                    check_fir(m, ns[ni], ck, ik, cplx != 0, r);
                }
                if (!thorough && m > 64) {
                    continue;
                }
                //every coefficient kind for the small lengths
                if (m <= 16) {
                    for (int c2 = 0; c2 < 5; ++c2) {
                        check_fir(m, ns[ni], CoefKind(c2), int(r.below(4)), cplx != 0, r);
                    }
                }
            }
        }
    }
    //long inputs
    {
        const int cnt = thorough ? 48 : 4;
        for (int i = 0; i < cnt; ++i) {
            if (!vh::mine(idx++)) {
                continue;
            }
            vh::Rng r = vh::rng_for("long", i);
            const int m = int(r.range(2, thorough ? 300 : 60));
            const int n = thorough ? 100000 : 20000;
            check_fir(m, n, RANDOM, int(r.below(4)), r.coin(), r);
            vh::obs_max("longest_input", n);
        }
    }
    vh::sample("FirFilter/FftFilter: coefficient lengths 2..128 and 2^k-2..2^k+2 (k=7..10) plus sampled ones (thorough: every length 2..1024) x input lengths {0,1,m-1,m,B-1,B,B+1,2B,2B+1,3B-1,4B+1,7B+3} (B = FFT block), inputs random / impulsive / 1e+-12 dynamic range / burst-silence-burst x real/complex");

    //xcorr: all pairs to 48
    const int xmax = thorough ? 96 : 48;
    for (int n1 = 1; n1 <= xmax; ++n1) {
        for (int n2 = 1; n2 <= xmax; ++n2) {
            if (!vh::mine(idx++)) {
                continue;
            }
            vh::Rng r = vh::rng_for("xc", n1 * 100 + n2);
            check_xcorr(n1, n2, false, r);
            check_xcorr(n1, n2, true, r);
        }
    }
    {
        const int cnt = thorough ? 600 : 48;
        for (int i = 0; i < cnt; ++i) {
            if (!vh::mine(idx++)) {
                continue;
            }
            vh::Rng r = vh::rng_for("xcbig", i);
            const int n1 = int(r.range(49, thorough ? 5000 : 1500));
            const int n2 = int(r.range(49, thorough ? 5000 : 1500));
            check_xcorr(n1, n2, r.coin(), r);
        }
    }
    //length pairs around the transform-size boundaries: the number of lags n1+n2-1 equal to 2^k-1, 2^k, 2^k+1, 2^k+2
    for (int k = 5; k <= (thorough ? 13 : 12); ++k) {
        for (int d = -1; d <= 2; ++d) {
            const int nlags = (1 << k) + d;
            for (int split = 0; split < 5; ++split) {
                if (!vh::mine(idx++)) {
                    continue;
                }
                int n1;
                switch (split) {
                case 0: n1 = (nlags + 1) / 2; break;       //equal lengths (autocorrelation overloads)
                case 1: n1 = nlags / 3 + 1; break;
                case 2: n1 = std::min(nlags, 70); break;
                case 3: n1 = std::max(1, nlags - 69); break;
                default: n1 = 1 + int(vh::rng_for("xcsplit", uint64_t(k) * 10 + uint64_t(d + 1)).below(uint64_t(nlags))); break;
                }
                const int n2 = nlags + 1 - n1;
                if (n1 < 1 || n2 < 1) {
                    continue;
                }
                vh::Rng r = vh::rng_for("xcb", (uint64_t(k) * 8 + uint64_t(d + 1)) * 8 + uint64_t(split));
                check_xcorr(n1, n2, false, r);
                check_xcorr(n1, n2, true, r);
                vh::obs_add("xcorr_pairs_at_transform_size_boundaries");
            }
        }
    }
    vh::sample("xcorr: all (n1,n2) in 1..48 x 1..48 (thorough: 1..96 x 1..96), real and complex, every lag -(n2-1)..n1-1 against the defining sum");

    //moving average
    std::vector<int> mans;
    for (int n = 1; n <= (thorough ? 130 : 20); ++n) {
        mans.push_back(n);
    }
    for (int n : {31, 32, 33, 64, 100, 127, 128, 255, 256, 500, 1000}) {
        if (std::find(mans.begin(), mans.end(), n) == mans.end()) {
            mans.push_back(n);
        }
    }
    for (int n : mans) {
        for (int cplx = 0; cplx < 2; ++cplx) {
            for (int rep = 0; rep < (thorough ? 4 : 2); ++rep) {
                if (!vh::mine(idx++)) {
                    continue;
                }
                vh::Rng r = vh::rng_for("ma", (uint64_t(n) * 2 + cplx) * 8 + rep);
                check_ma(n, 3 * n + 7, cplx != 0, r);
                check_ma(n, thorough ? 20000 : 3000, cplx != 0, r);
            }
        }
    }
    vh::g.exhaustive = true;
    return vh::finish();
}
