// C10 - transform results do not depend on call history; plan caching is transparent.
// Monitors: (1) result of every request of a history equals the result of the same call in a fresh thread,
// (2) plan objects obtained earlier stay valid, (3) a reference LRU driven by the hooked get/put trace equals the
// hooked key list after every request, (4) LRUCache<int,int> against the same model over all short op sequences.
#include "dsp.h"
#include <cstring>
#include "lru-cache.h"
#include "verif-hooks.h"

#include <list>
#include <thread>

using namespace vd;
namespace dl = dsplib;
namespace vf = dsplib::verif;


//"equals the one obtained in a fresh thread": the same deterministic code ran on the same input, so the comparison is bitwise
//(a plan whose structure depends on what the thread cached earlier gives results that are accurate yet not identical)
static bool close_c(const arr_cmplx& a, const arr_cmplx& b) {
    return a.size() == b.size() && (a.size() == 0 || std::memcmp(a.data(), b.data(), sizeof(cmplx_t) * size_t(a.size())) == 0);
}
static bool close_r(const arr_real& a, const arr_real& b) {
    return a.size() == b.size() && (a.size() == 0 || std::memcmp(a.data(), b.data(), sizeof(real_t) * size_t(a.size())) == 0);
}

//---- reference LRU --------------------------------------------------------------------------------------------
struct ModelLru
{
    size_t cap;
    std::list<int> keys;   //front = most recently used
    explicit ModelLru(size_t c)
      : cap{c} {
    }
    bool has(int k) const {
        for (int v : keys) {
            if (v == k) {
                return true;
            }
        }
        return false;
    }
    void touch(int k) {
        keys.remove(k);
        keys.push_front(k);
    }
    void put(int k) {
        keys.remove(k);
        keys.push_front(k);
        if (keys.size() > cap) {
            keys.pop_back();
        }
    }
    std::vector<int> vec() const {
        return std::vector<int>(keys.begin(), keys.end());
    }
};

static std::string show(const std::vector<int>& v) {
    std::string s = "[";
    for (size_t i = 0; i < v.size(); ++i) {
        s += vh::fmt("%s%d", i ? "," : "", v[i]);
    }
    return s + "]";
}

static bool small_len(int n) {
    return n == 1 || n == 2 || n == 4 || n == 8;
}

//inputs and fresh-thread reference results per (kind,length)
struct RefTable
{
    std::map<int, arr_cmplx> xc, Xc, xi;
    std::map<int, arr_real> xr, xb;
    std::map<int, arr_cmplx> Xr;
    void ensure(int n) {
        if (xc.count(n)) {
            return;
        }
        vh::Rng r(uint64_t(n) * 7919 + 13);
        xc[n] = gauss_cmplx(r, n);
        xr[n] = gauss_real(r, n);
        const arr_cmplx& a = xc[n];
        const arr_real& b = xr[n];
        arr_cmplx X, XI, XR;
        arr_real XB;
        //each reference in its own fresh thread (empty caches)
        in_fresh_thread([&] { X = dl::fft(a); });
        in_fresh_thread([&] { XI = dl::ifft(a); });
        in_fresh_thread([&] { XR = dl::rfft(b); });
        if (n % 2 == 0) {
            in_fresh_thread([&] { XB = dl::irfft(XR, n); });
        }
        Xc[n] = X;
        xi[n] = XI;
        Xr[n] = XR;
        xb[n] = XB;
    }
};

static RefTable g_ref;

//calls built on the transforms (padding / truncating overloads, FFT filter, correlation, spectral estimate): result of a call
//inside a history vs the same call in a fresh thread; references are computed lazily, once per key
struct Derived
{
    std::map<std::string, arr_cmplx> refc;
    static arr_cmplx run(int kind, int a, int b) {
        vh::Rng r(uint64_t(kind) * 1000003ULL + uint64_t(a) * 1009ULL + uint64_t(b));
        switch (kind) {
        case 0:   //fft(complex x[a], b): pad or truncate
            return dl::fft(gauss_cmplx(r, a), b);
        case 1:   //rfft(real x[a], b)
            return dl::rfft(gauss_real(r, a), b);
        case 2: {   //FftFilter(h[a]) on x[b]
            dl::FftFilter f(gauss_real(r, a));
            return dl::complex(f.process(gauss_real(r, b)));
        }
        case 3:   //xcorr
            return dl::complex(dl::xcorr(gauss_real(r, a), gauss_real(r, b)));
        case 4:   //welch(x[b], winlen a)
            return dl::complex(dl::welch(gauss_real(r, b), a).pxx);
        case 5:   //hilbert(x[a], b)
            return dl::hilbert(gauss_real(r, a), b);
        case 6: {   //czt(x[a], a, w = exp(-2 pi i / a), start point on or off the unit circle chosen by b): the chirp plan of length a
            const double th = -2 * 3.14159265358979323846 / a;
            const cmplx_t w{std::cos(th), std::sin(th)};
            const double pa = 0.37 * b;
            const double ma = (b % 2) ? 1.0 : 0.9;
            return dl::czt(gauss_cmplx(r, a), a, w, cmplx_t{ma * std::cos(pa), ma * std::sin(pa)});
        }
        default: {   //stft -> istft round trip (nfft = a)
            const arr_real x = gauss_real(r, b);
            return dl::complex(dl::istft(dl::stft(x, a), a));
        }
        }
    }
    const arr_cmplx& reference(int kind, int a, int b) {
        const std::string key = vh::fmt("%d/%d/%d", kind, a, b);
        auto it = refc.find(key);
        if (it == refc.end()) {
            arr_cmplx out;
            in_fresh_thread([&] { out = run(kind, a, b); });
            it = refc.emplace(key, out).first;
        }
        return it->second;
    }
};
static Derived g_derived;
static int g_cap = 4;
static const char* g_capname = "K4";

//state carried through one history (one thread)
struct HistoryMon
{
    ModelLru mc{size_t(g_cap)};
    ModelLru mr{size_t(g_cap)};
    size_t trace_pos{0};
    bool ok{true};
    std::string err;
    std::string errkey;

    void fail(const std::string& key, const std::string& what) {
        if (ok) {
            ok = false;
            errkey = key;
            err = what;
        }
    }

    //consume new trace events, then compare with the hooked key lists
    void after_request(int cache, int n, const std::string& ctx) {
        auto& tr = vf::cache_trace();
        for (; trace_pos < tr.size(); ++trace_pos) {
            const auto& e = tr[trace_pos];
            ModelLru& m = (e.cache == 0) ? mc : mr;
            if (e.hit) {
                if (!m.has(e.n)) {
                    fail("C10/lru/hit_on_absent_key", ctx + vh::fmt(": the cache served length %d that the reference LRU had already evicted", e.n));
                }
                m.touch(e.n);
            } else {
                m.put(e.n);
            }
            vh::obs_add("trace_events_checked");
        }
        const std::vector<int> kc = vf::fft_cache_keys();
        const std::vector<int> kr = vf::rfft_cache_keys();
        if (int(kc.size()) > g_cap || int(kr.size()) > g_cap) {
            fail(vh::fmt("C10/lru/capacity_exceeded/%s", g_capname), ctx + vh::fmt(": caches hold %zu complex / %zu real plans, configured capacity %d", kc.size(), kr.size(), g_cap));
        }
        if (kc != mc.vec()) {
            fail(vh::fmt("C10/lru/complex_keys_differ/%s", g_capname), ctx + ": complex cache holds " + show(kc) + " (MRU first), reference LRU over the same get/put trace holds " + show(mc.vec()));
        }
        if (kr != mr.vec()) {
            fail(vh::fmt("C10/lru/real_keys_differ/%s", g_capname), ctx + ": real cache holds " + show(kr) + " (MRU first), reference LRU over the same get/put trace holds " + show(mr.vec()));
        }
        if (!small_len(n)) {
            const std::vector<int>& k = (cache == 0) ? kc : kr;
            if (k.empty() || k[0] != n) {
                fail(vh::fmt("C10/lru/requested_not_mru/%s", g_capname), ctx + vh::fmt(": after requesting length %d the %s cache holds ", n, cache ? "real" : "complex") + show(k));
            }
        }
    }
};

//one history of requests on one cache kind; runs in a fresh thread
static void run_history(const std::vector<int>& seq, int cache_kind, uint64_t code, bool keep_plans) {
    bool evicted = false;
    HistoryMon mon;
    in_fresh_thread([&] {
        vf::cache_trace().clear();
        std::vector<std::pair<int, dl::FftPlan>> held;
        std::vector<std::pair<int, dl::FftPlanR>> heldr;
        std::vector<std::pair<int, dl::IfftPlanR>> heldi;
        const int alt = 12;   //an even length used for interleaved irfft calls
        std::string sofar;
        for (size_t i = 0; i < seq.size(); ++i) {
            const int n = seq[i];
            sofar += vh::fmt("%s%d", i ? "," : "", n);
            const std::string ctx = vh::fmt("%s history [%s] (capacity %d)", cache_kind ? "real" : "complex", sofar.c_str(), g_cap);
            if (cache_kind == 0) {
                const arr_cmplx X = dl::fft(g_ref.xc[n]);
                if (!close_c(X, g_ref.Xc[n])) {
                    mon.fail("C10/result/fft", ctx + vh::fmt(": fft of length %d differs from the result in a fresh thread", n));
                }
                if (keep_plans && i % 3 == 0) {
                    held.emplace_back(n, dl::FftPlan(n));
                }
            } else {
                const arr_cmplx X = dl::rfft(g_ref.xr[n]);
                if (!close_c(X, g_ref.Xr[n])) {
                    mon.fail("C10/result/rfft", ctx + vh::fmt(": rfft of length %d differs from the result in a fresh thread", n));
                }
                if (keep_plans && i % 3 == 0) {
                    heldr.emplace_back(n, dl::FftPlanR(n));
                }
                if (keep_plans && i % 3 == 1 && n % 2 == 0) {
                    heldi.emplace_back(n, dl::IfftPlanR(n));
                    //the inverse real transforms of the history run through the one-shot function
                    (void)dl::irfft(g_ref.Xr[alt], alt);
                }
            }
            const size_t before = mon.mc.keys.size() + mon.mr.keys.size();
            mon.after_request(cache_kind, n, ctx);
            (void)before;
        }
        //plans obtained earlier are still correct after the whole history
        for (auto& p : held) {
            if (!close_c(p.second.solve(g_ref.xc[p.first]), g_ref.Xc[p.first])) {
                mon.fail("C10/held_plan/complex", vh::fmt("FftPlan(%d) obtained during history [%s] gives a wrong result at the end", p.first, sofar.c_str()));
            }
        }
        for (auto& p : heldr) {
            if (!close_c(p.second.solve(g_ref.xr[p.first]), g_ref.Xr[p.first])) {
                mon.fail("C10/held_plan/real", vh::fmt("FftPlanR(%d) obtained during history [%s] gives a wrong result at the end", p.first, sofar.c_str()));
            }
        }
        for (auto& p : heldi) {
            if (!close_r(p.second.solve(g_ref.Xr[p.first]), g_ref.xb[p.first])) {
                mon.fail("C10/held_plan/inverse_real", vh::fmt("IfftPlanR(%d) obtained during history [%s] gives a wrong result at the end", p.first, sofar.c_str()));
            }
        }
        //did the history evict at least once? (trace has more distinct puts than the capacity)
        std::vector<int> seen;
        for (const auto& e : vf::cache_trace()) {
            if (!e.hit && e.cache == 0 && std::find(seen.begin(), seen.end(), e.n) == seen.end()) {
                seen.push_back(e.n);
            }
        }
        evicted = int(seen.size()) > g_cap;
    });
    vh::Hasher h;
    h.s("hist").i(cache_kind).u64(code).i(seq.size()).i(g_cap);
    vh::count(h.get(), evicted);
    if (evicted) {
        vh::obs_add("histories_with_eviction");
    }
    if (!mon.ok) {
        vh::violation(mon.errkey, mon.err);
    }
}

//---- LRUCache<int,int> template against the model ---------------------------------------------------------------
static void lru_template_sequences(int K, int maxlen, uint64_t& idx) {
    const int NK = 6;
    const int NOPS = 3 * NK;
    //iterate all sequences of exactly len ops (prefix-closed, so shorter ones are covered as prefixes: every prefix state is checked)
    std::vector<int> ops(maxlen, 0);
    uint64_t total = 1;
    for (int i = 0; i < maxlen; ++i) {
        total *= NOPS;
    }
    for (uint64_t code = 0; code < total; ++code) {
        //shard on the leading two ops so that work units are contiguous
        const uint64_t unit = code / (total / (NOPS * NOPS));
        if (!vh::mine(idx + unit)) {
            code += total / (NOPS * NOPS) - 1;
            continue;
        }
        uint64_t c = code;
        for (int i = maxlen - 1; i >= 0; --i) {
            ops[i] = int(c % NOPS);
            c /= NOPS;
        }
        dl::LRUCache<int, int> cache(static_cast<size_t>(K));
        ModelLru m(static_cast<size_t>(K));
        std::map<int, int> val;
        bool ok = true;
        std::string why;
        for (int i = 0; i < maxlen && ok; ++i) {
            const int kind = ops[i] / NK;
            const int key = ops[i] % NK;
            if (kind == 0) {
                const int v = i * 10 + key;
                cache.put(key, v);
                m.put(key);
                val[key] = v;
            } else if (kind == 1) {
                const bool should = m.has(key);
                bool threw = false;
                int got = -1;
                try {
                    got = cache.get(key);
                } catch (const std::exception&) {
                    threw = true;
                }
                if (should) {
                    m.touch(key);
                }
                if (threw == should) {
                    ok = false;
                    why = vh::fmt("get(%d) %s", key, threw ? "threw although the key must be present" : "returned although the key must have been evicted");
                } else if (should && got != val[key]) {
                    ok = false;
                    why = vh::fmt("get(%d) returned %d, last value put was %d", key, got, val[key]);
                }
            } else {
                if (cache.exists(key) != m.has(key)) {
                    ok = false;
                    why = vh::fmt("exists(%d)=%d, reference says %d", key, int(cache.exists(key)), int(m.has(key)));
                }
            }
            if (ok) {
                const std::vector<int> k = cache.keys();
                if (k != m.vec() || cache.size() != int(k.size()) || int(k.size()) > K) {
                    ok = false;
                    why = "keys " + show(k) + " vs reference " + show(m.vec());
                }
            }
        }
        vh::count(code * 4 + uint64_t(K), true);
        if (!ok) {
            std::string sq;
            for (int i = 0; i < maxlen; ++i) {
                sq += vh::fmt("%s%s(%d)", i ? " " : "", ops[i] / NK == 0 ? "put" : (ops[i] / NK == 1 ? "get" : "exists"), ops[i] % NK);
            }
            vh::violation(vh::fmt("C10/lru_template/K%d", K), vh::fmt("LRUCache<int,int>(%d) after [%s]: %s", K, sq.c_str(), why.c_str()));
            return;
        }
    }
    idx += NOPS * NOPS;
}

//---- random long history with long-lived plans ------------------------------------------------------------------
static void random_history(int nreq, vh::Rng& r, int id) {
    std::vector<int> lens = {3, 5, 6, 7, 9, 10, 12, 15, 16, 17, 20, 21, 24, 25, 27, 30, 32, 33, 35, 36, 40, 41, 43, 45, 48, 49, 50, 60, 64, 81, 85, 86, 90, 91, 97, 100, 101, 105, 120, 121, 125, 128, 129, 175, 194, 256, 273, 363, 375, 425};
    for (int n : lens) {
        g_ref.ensure(n);
    }
    HistoryMon mon;
    uint64_t held_checks = 0;
    uint64_t derived_checks = 0;
    in_fresh_thread([&] {
        vf::cache_trace().clear();
        struct Held
        {
            int n;
            int kind;
            std::shared_ptr<dl::FftPlan> pc;
            std::shared_ptr<dl::FftPlanR> pr;
            std::shared_ptr<dl::IfftPlan> pi;
            std::shared_ptr<dl::IfftPlanR> pir;
            std::shared_ptr<dl::CztPlan> pz;
            arr_cmplx first_c;   //result at the moment the plan was obtained
            arr_real first_r;
        };
        std::vector<Held> held;
        auto check_held = [&](const Held& h, const std::string& ctx) {
            ++held_checks;
            bool ok = true;
            if (h.kind == 0) {
                ok = close_c(h.pc->solve(g_ref.xc[h.n]), g_ref.Xc[h.n]);
            } else if (h.kind == 1) {
                ok = close_c(h.pr->solve(g_ref.xr[h.n]), g_ref.Xr[h.n]);
            } else if (h.kind == 2) {
                ok = close_c(h.pi->solve(g_ref.xc[h.n]), g_ref.xi[h.n]);
            } else if (h.kind == 3) {
                const arr_real y = h.pir->solve(g_ref.Xr[h.n]);
                ok = close_r(y, g_ref.xb[h.n]) && close_r(y, h.first_r);
            } else {
                ok = close_c(h.pz->solve(g_ref.xc[h.n]), h.first_c);
            }
            if (!ok) {
                const char* kn[5] = {"complex", "real", "inverse", "inverse_real", "czt"};
                mon.fail(vh::fmt("C10/held_plan/%s", kn[h.kind]), ctx + vh::fmt(": a long-lived plan of length %d no longer gives the result it gave when it was obtained", h.n));
            }
        };
        const std::string ctx_base = vh::fmt("random history %d (capacity %d)", id, g_cap);
        for (int i = 0; i < nreq && mon.ok; ++i) {
            const int n = lens[r.below(lens.size())];
            int op = int(r.below(8));
            if (r.below(4) == 0) {
                //a call built on the transforms; input lengths from a small set so that the same target length is reached
                //from longer and shorter inputs in every order
                const int kind = int(r.below(8));
                int a, b;
                if (kind == 6) {
                    a = int(r.pick(std::vector<int>{43, 47, 16, 45, 101}));   //primes above 41 use a chirp plan of the same length internally
                    b = int(r.range(0, 5));
                } else if (kind == 7) {
                    a = int(r.pick(std::vector<int>{16, 64}));
                    b = int(r.pick(std::vector<int>{200, 333}));
                } else if (kind == 0 || kind == 1 || kind == 5) {
                    b = int(r.pick(std::vector<int>{16, 60, 64, 45}));
                    a = int(r.pick(std::vector<int>{5, 12, 40, 70, b, b + 1, 2 * b}));
                } else if (kind == 2) {
                    a = int(r.pick(std::vector<int>{9, 16, 33}));
                    b = int(r.pick(std::vector<int>{100, 257}));
                } else if (kind == 3) {
                    a = int(r.pick(std::vector<int>{7, 20, 50}));
                    b = int(r.pick(std::vector<int>{7, 31, 64}));
                } else {
                    a = int(r.pick(std::vector<int>{16, 24, 50}));
                    b = int(r.pick(std::vector<int>{200, 333}));
                }
                const arr_cmplx& want = g_derived.reference(kind, a, b);
                const arr_cmplx got = Derived::run(kind, a, b);
                const char* kn[8] = {"fft(x,n)", "rfft(x,n)", "FftFilter", "xcorr", "welch", "hilbert(x,n)", "czt(x,m,w,a)", "istft(stft(x))"};
                ++derived_checks;
                if (!close_c(got, want)) {
                    mon.fail(vh::fmt("C10/result/derived/%s", kn[kind]), ctx_base + vh::fmt(", request %d: %s with sizes (%d,%d) differs from the same call in a fresh thread", i, kn[kind], a, b));
                }
                mon.after_request(0, 8, ctx_base);
                continue;
            }
            const std::string ctx = vh::fmt("random history %d, request %d (capacity %d)", id, i, g_cap);
            int cache = 0;
            switch (op) {
            case 0:
            case 1:
                if (!close_c(dl::fft(g_ref.xc[n]), g_ref.Xc[n])) {
                    mon.fail("C10/result/fft", ctx + vh::fmt(": fft(%d) differs from the fresh-thread result", n));
                }
                break;
            case 2:
                if (!close_c(dl::ifft(g_ref.xc[n]), g_ref.xi[n])) {
                    mon.fail("C10/result/ifft", ctx + vh::fmt(": ifft(%d) differs from the fresh-thread result", n));
                }
                break;
            case 3:
            case 4:
                cache = 1;
                if (!close_c(dl::rfft(g_ref.xr[n]), g_ref.Xr[n])) {
                    mon.fail("C10/result/rfft", ctx + vh::fmt(": rfft(%d) differs from the fresh-thread result", n));
                }
                break;
            case 5:
                if (n % 2 == 0) {
                    if (!close_r(dl::irfft(g_ref.Xr[n], n), g_ref.xb[n])) {
                        mon.fail("C10/result/irfft", ctx + vh::fmt(": irfft(%d) differs from the fresh-thread result", n));
                    }
                    cache = -1;   //IfftPlanR requests length n/2 from the complex cache
                } else {
                    if (!close_c(dl::fft(g_ref.xc[n]), g_ref.Xc[n])) {
                        mon.fail("C10/result/fft", ctx + vh::fmt(": fft(%d) differs from the fresh-thread result", n));
                    }
                }
                break;
            case 6: {
                Held h;
                h.n = n;
                h.kind = int(r.below(5));
                if (h.kind == 3 && n % 2 != 0) {
                    h.kind = 2;
                }
                if (h.kind == 0) {
                    h.pc = std::make_shared<dl::FftPlan>(n);
                } else if (h.kind == 1) {
                    h.pr = std::make_shared<dl::FftPlanR>(n);
                    cache = 1;
                } else if (h.kind == 2) {
                    h.pi = std::make_shared<dl::IfftPlan>(n);
                } else if (h.kind == 3) {
                    h.pir = std::make_shared<dl::IfftPlanR>(n);
                    h.first_r = h.pir->solve(g_ref.Xr[n]);
                    cache = -1;
                } else {
                    h.pz = std::make_shared<dl::CztPlan>(n, n + 3, dl::expj(-2 * 3.14159265358979323846 / (n + 1)), cmplx_t{0.95, 0.05});
                    h.first_c = h.pz->solve(g_ref.xc[n]);
                    cache = -1;
                }
                if (held.size() < 15) {
                    held.push_back(h);
                } else {
                    held[r.below(held.size())] = h;
                }
                break;
            }
            default:
                if (!held.empty()) {
                    check_held(held[r.below(held.size())], ctx);
                }
                cache = -2;   //no cache request
                break;
            }
            if (cache >= 0) {
                mon.after_request(cache, n, ctx);
            } else {
                mon.after_request(0, 8, ctx);   //only model/keys comparison (8 = not cacheable, skips the MRU rule)
            }
        }
        for (const auto& h : held) {
            check_held(h, vh::fmt("end of random history %d", id));
        }
    });
    vh::Hasher hh;
    hh.s("rand").i(id).i(nreq).i(g_cap);
    vh::count(hh.get(), true);
    vh::obs_add("random_history_requests", nreq);
    vh::obs_add("held_plan_checks", double(held_checks));
    vh::obs_add("derived_call_checks", double(derived_checks));
    if (!mon.ok) {
        vh::violation(mon.errkey, mon.err);
    }
}

int main(int argc, char** argv) {
    vh::init(argc, argv, "C10");
    const bool thorough = vh::g.thorough();
    const int configured = atoi(vh::opt("cache_capacity", "-1").c_str());
    g_cap = vf::fft_cache_capacity();
    static char capname[16];
    snprintf(capname, sizeof(capname), "K%d", g_cap);
    g_capname = capname;
    if (configured > 0 && configured != g_cap) {
        vh::violation("C10/config/capacity_not_honoured", vh::fmt("CMake configured DSPLIB_FFT_CACHE_SIZE=%d but the library was compiled with capacity %d", configured, g_cap));
    }
    const std::string mode = vh::opt("mode", "all");
    uint64_t idx = 0;

    //alphabets: pow2 / composites sharing prime leaves / prime > 41 (Bluestein requests a pow2 plan itself)
    const std::vector<int> alpha_c = {16, 12, 45, 15, 43, 60};
    const std::vector<int> alpha_r = {16, 12, 45, 15, 43, 90};
    for (int n : alpha_c) {
        g_ref.ensure(n);
    }
    for (int n : alpha_r) {
        g_ref.ensure(n);
    }

    if (mode == "all" || mode == "histories") {
        const int maxlen = thorough ? 8 : 7;
        for (int kind = 0; kind < 2; ++kind) {
            const auto& alpha = kind ? alpha_r : alpha_c;
            for (int len = 1; len <= maxlen; ++len) {
                uint64_t total = 1;
                for (int i = 0; i < len; ++i) {
                    total *= 6;
                }
                for (uint64_t code = 0; code < total; ++code) {
                    if (!vh::mine(idx++)) {
                        continue;
                    }
                    std::vector<int> seq(len);
                    uint64_t c = code;
                    for (int i = len - 1; i >= 0; --i) {
                        seq[i] = alpha[c % 6];
                        c /= 6;
                    }
                    run_history(seq, kind, code, (code % 5) == 0);
                    vh::obs_add("histories_enumerated");
                }
            }
            if (!thorough) {
                //quick: seeded sample of the length-8 histories
                vh::Rng r = vh::rng_for("len8", kind);
                for (int t = 0; t < 2000; ++t) {
                    std::vector<int> seq(8);
                    uint64_t code = 0;
                    for (int i = 0; i < 8; ++i) {
                        const int d = int(r.below(6));
                        seq[i] = alpha[d];
                        code = code * 6 + d;
                    }
                    if (!vh::mine(idx++)) {
                        continue;
                    }
                    run_history(seq, kind, code + (1ULL << 40), true);
                    vh::obs_add("histories_sampled_len8");
                }
            }
        }
        vh::sample(vh::fmt("complex history over alphabet {16,12,45,15,43,60}, e.g. [45,16,43,12,45,60]: after each request the hooked key list must equal an LRU(%d) driven by the observed get/put trace", g_cap));
    }
    if (mode == "all" || mode == "template") {
        const int maxlen = thorough ? 6 : 5;
        for (int K = 1; K <= 4; ++K) {
            lru_template_sequences(K, maxlen, idx);
        }
        vh::sample("LRUCache<int,int>(K) for K=1..4: every sequence of put/get/exists over 6 keys; keys(), size(), exists() and get() (value or exception) compared with the reference after every operation");
    }
    if (mode == "all" || mode == "random") {
        const int nh = thorough ? 16 : 4;
        const int nreq = thorough ? 10000 : 2000;
        for (int i = 0; i < nh; ++i) {
            if (!vh::mine(idx++)) {
                continue;
            }
            vh::Rng r = vh::rng_for("randhist", i);
            random_history(nreq, r, i);
        }
    }
    vh::obs_max(vh::fmt("capacity_%d_checked", g_cap), 1);
    vh::g.exhaustive = true;
    return vh::finish();
}
