// C02 - inverse transforms invert the forward transforms (ifft, irfft both input forms, istft(stft)).
#include "dsp.h"

#include <algorithm>

using namespace vd;
namespace dl = dsplib;

static const double K_INV = 64.0;

static const char* nclass(int n) {
    if ((n & (n - 1)) == 0) {
        return "pow2";
    }
    return (n % 4 == 0) ? "n%4==0" : ((n % 2 == 0) ? "n%4==2" : "odd");
}

static void check_ifft(int n, vh::Rng& r) {
    vh::begin_case("ifft", "n=%d", n);
    const arr_cmplx X = gauss_cmplx(r, n);
    const CV xref0 = ref::dft(to_ref(X), +1);
    CV xref(n);
    for (int i = 0; i < n; ++i) {
        xref[i] = xref0[i] * (ld(1) / n);
    }
    const ld nr = ref::norm2(xref);
    auto judge = [&](const char* ep, const arr_cmplx& y, const CV& want, ld scale) {
        vh::Hasher h;
        h.s(ep).i(n).u64(hash_arr(X));
        vh::count(h.get(), scale > 0);
        if (y.size() != n) {
            vh::violation(vh::fmt("C02/%s/length", ep), vh::fmt("%s n=%d returned %d", ep, n, y.size()));
            return;
        }
        const ld err = diff2(y, want);
        vh::obs_max("ifft_err_over_n_eps", double(err / (n * ref::EPS * scale)));
        if (!all_finite(y) || !(err <= K_INV * n * ref::EPS * scale)) {
            vh::violation(vh::fmt("C02/%s/%s", ep, nclass(n)), vh::fmt("%s n=%d rel_l2_err=%.3Le tol=64*n*eps=%.3Le seed=%llu", ep, n, err / scale,
                                                                     ld(K_INV * n * ref::EPS), (unsigned long long)vh::g.seed));
        }
    };
    judge("ifft", dl::ifft(X), xref, nr);
    dl::IfftPlan plan(n);
    judge("ifftplan", plan.solve(X), xref, nr);
    judge("ifftplan_call", plan(X), xref, nr);
    if (plan.size() != n) {
        vh::violation("C02/ifftplan/size", vh::fmt("IfftPlan(%d).size()=%d", n, plan.size()));
    }
    //round trip
    const arr_cmplx x = gauss_cmplx(r, n);
    judge("ifft(fft(x))", dl::ifft(dl::fft(x)), to_ref(x), norm2(x));
    //structured signals whose spectra are (almost) conjugate-symmetric: real signals, real plus a constant / alternating imaginary
    //part (only the DC and Nyquist bins break the symmetry), purely imaginary, constant, single tone, impulse
    {
        arr_cmplx z(n);
        const int kind = int(r.below(7));
        const double ca = r.gauss(), cb = r.gauss();
        for (int i = 0; i < n; ++i) {
            const double re = r.gauss();
            switch (kind) {
            case 0: z[i] = cmplx_t{re, 0}; break;
            case 1: z[i] = cmplx_t{re, ca + ((i % 2) ? -cb : cb)}; break;
            case 2: z[i] = cmplx_t{0, re}; break;
            case 3: z[i] = cmplx_t{0.75, -0.5}; break;
            case 4: z[i] = cmplx_t{(i == n / 3) ? 1.0 : 0.0, ca}; break;
            case 5: z[i] = cmplx_t{std::cos(2 * 3.14159265358979323846 * 3 * i / n), cb * ((i % 2) ? -1.0 : 1.0)}; break;
            default: z[i] = cmplx_t{re, ca}; break;
            }
        }
        const ld nz = norm2(z);
        if (nz > 0) {
            judge("ifft(fft(structured))", dl::ifft(dl::fft(z)), to_ref(z), nz);
            //the exact spectrum of z (long double), rounded to double, through ifft and the plan
            const CV Zr = ref::dft(to_ref(z), -1);
            arr_cmplx Z(n);
            for (int i = 0; i < n; ++i) {
                Z[i] = cmplx_t{double(Zr[i].re), double(Zr[i].im)};
            }
            const CV back0 = ref::dft(to_ref(Z), +1);
            CV back(n);
            for (int i = 0; i < n; ++i) {
                back[i] = back0[i] * (ld(1) / n);
            }
            judge("ifft(structured spectrum)", dl::ifft(Z), back, ref::norm2(back));
            judge("ifftplan(structured spectrum)", plan.solve(Z), back, ref::norm2(back));
            vh::obs_add("structured_spectra");
        }
    }
}

static void check_irfft(int n, vh::Rng& r) {
    vh::begin_case("irfft", "n=%d", n);
    if (n % 2 == 1) {
        //must be rejected with an exception
        const arr_cmplx X = gauss_cmplx(r, n);
        const arr_cmplx Xh = gauss_cmplx(r, n / 2 + 1);
        auto expect_throw = [&](const char* ep, const std::function<void()>& fn) {
            vh::Hasher h;
            h.s(ep).i(n);
            vh::count(h.get(), true);
            std::string what;
            const auto oc = try_call(fn, &what);
            if (oc != Outcome::Threw) {
                vh::violation(vh::fmt("C02/%s/odd_not_rejected", ep), vh::fmt("%s with odd n=%d %s", ep, n, oc == Outcome::Returned ? "returned normally" : "threw a non-std exception"));
            }
            vh::obs_add("odd_rejections_seen", oc == Outcome::Threw ? 1 : 0);
        };
        expect_throw("irfft(X,n)", [&] { (void)dl::irfft(X, n); });
        expect_throw("irfft(Xhalf,n)", [&] { (void)dl::irfft(Xh, n); });
        expect_throw("irfft(X)", [&] { (void)dl::irfft(X); });
        expect_throw("IfftPlanR(n)", [&] { dl::IfftPlanR p(n); (void)p.solve(X); });
        return;
    }
    //real x, X = exact DFT rounded to double
    const arr_real x = gauss_real(r, n);
    const CV Xl = ref::dft(to_refc(x), -1);
    arr_cmplx Xfull(n);
    for (int k = 0; k < n; ++k) {
        Xfull[k] = cmplx_t{double(Xl[k].re), double(Xl[k].im)};
    }
    arr_cmplx Xhalf(n / 2 + 1);
    for (int k = 0; k <= n / 2; ++k) {
        Xhalf[k] = Xfull[k];
    }
    const RV want = to_ref(x);
    const ld nr = norm2(x);
    auto judge = [&](const char* ep, const arr_real& y) {
        vh::Hasher h;
        h.s(ep).i(n).u64(hash_arr(x));
        vh::count(h.get(), nr > 0);
        if (y.size() != n) {
            vh::violation(vh::fmt("C02/%s/length", ep), vh::fmt("%s n=%d returned %d", ep, n, y.size()));
            return;
        }
        const ld err = diff2(y, want);
        vh::obs_max("irfft_err_over_n_eps", double(err / (n * ref::EPS * nr)));
        if (!all_finite(y) || !(err <= K_INV * n * ref::EPS * nr)) {
            vh::violation(vh::fmt("C02/%s/%s", ep, nclass(n)),
                          vh::fmt("%s n=%d rel_l2_err=%.3Le tol=64*n*eps=%.3Le; x=%s got=%s", ep, n, err / nr, ld(K_INV * n * ref::EPS), head(x).c_str(), head(y).c_str()));
        }
    };
    judge("irfft(Xfull,n)", dl::irfft(Xfull, n));
    judge("irfft(Xhalf,n)", dl::irfft(Xhalf, n));
    judge("irfft(Xfull)", dl::irfft(Xfull));
    dl::IfftPlanR plan(n);
    judge("IfftPlanR(full)", plan.solve(Xfull));
    judge("IfftPlanR(half)", plan(Xhalf));
    judge("irfft(rfft(x))", dl::irfft(dl::rfft(x), n));
    judge("irfft(fft(x))", dl::irfft(dl::fft(x)));
    if (plan.size() != n) {
        vh::violation("C02/IfftPlanR/size", vh::fmt("IfftPlanR(%d).size()=%d", n, plan.size()));
    }
}

//------------------------------------------------------------------------------------------------
struct Win
{
    std::string name;
    arr_real w;
};

static std::vector<Win> windows(int n) {
    std::vector<Win> v;
    namespace W = dl::window;
    v.push_back({"hann_sym", W::hann(n, true)});
    v.push_back({"hann_per", W::hann(n, false)});
    v.push_back({"hamming_sym", W::hamming(n, true)});
    v.push_back({"hamming_per", W::hamming(n, false)});
    v.push_back({"blackman_sym", W::blackman(n, true)});
    v.push_back({"blackman_per", W::blackman(n, false)});
    v.push_back({"cosine_sym", W::cosine(n, true)});
    v.push_back({"cosine_per", W::cosine(n, false)});
    v.push_back({"kaiser_sym", W::kaiser(n, 4.0)});
    {
        const arr_real k = W::kaiser(n + 1, 4.0);
        arr_real kp(n);
        for (int i = 0; i < n; ++i) {
            kp[i] = k[i];
        }
        v.push_back({"kaiser_per", kp});
    }
    v.push_back({"rect", dl::ones(n)});
    return v;
}

//long-double COLA deviation: max |s - median| / median over one hop
static ld cola_dev(const arr_real& w, int overlap, int pw, ld* nsum_out) {
    const int nwin = w.size();
    const int hop = nwin - overlap;
    std::vector<ld> s(hop, 0);
    for (int i = 0; i < nwin; ++i) {
        ld v = w[i];
        if (pw == 2) {
            v = v * v;
        }
        s[i % hop] += v;
    }
    std::vector<ld> t = s;
    std::sort(t.begin(), t.end());
    const ld med = (hop % 2) ? t[hop / 2] : (t[hop / 2] + t[hop / 2 - 1]) / 2;
    ld dev = 0;
    for (auto v : s) {
        dev = std::max(dev, fabsl(v - med));
    }
    *nsum_out = ld((nwin + hop - 1) / hop);
    return dev;
}

static const char* range_name(dl::StftRange r) {
    return r == dl::StftRange::Onesided ? "onesided" : (r == dl::StftRange::Twosided ? "twosided" : "centered");
}

static void check_stft(int nfft, int nwin, const Win& win, int overlap, vh::Rng& r) {
    const int hop = nwin - overlap;
    for (int mi = 0; mi < 2; ++mi) {
        const auto method = mi == 0 ? dl::OverlapMethod::Ola : dl::OverlapMethod::Wola;
        const int pw = mi == 0 ? 1 : 2;
        vh::begin_case("iscola", "win=%s nwin=%d overlap=%d method=%s", win.name.c_str(), nwin, overlap, mi ? "wola" : "ola");
        const bool cola = dl::iscola(win.w, overlap, method);
        ld nsum = 0;
        const ld dev = cola_dev(win.w, overlap, pw, &nsum);
        {
            vh::Hasher h;
            h.s("iscola").s(win.name).i(nwin).i(overlap).i(mi);
            vh::count(h.get(), true);
            //iscola's own accuracy is not part of the property (reconstruction is only claimed for accepted pairs);
            //agreement with the exact overlap sum is recorded as an observation, never judged
            if (dev < 0.1L * ref::EPS * nsum && !cola) {
                vh::obs_add("iscola_rejects_exactly_cola_pair");
            } else if (dev > 1e-6L && cola) {
                vh::obs_add("iscola_accepts_non_cola_pair");
            } else {
                vh::obs_add("iscola_agrees_with_exact_sum");
            }
        }
        if (!cola) {
            continue;
        }
        vh::obs_add("cola_pairs_accepted");
        for (auto range : {dl::StftRange::Onesided, dl::StftRange::Twosided, dl::StftRange::Centered}) {
            const int k = int(r.range(2, 5));
            const int rem = int(r.below(hop));
            const int nx = k * hop + overlap + rem;
            if (nx < nwin) {
                continue;
            }
            vh::begin_case("istft", "win=%s nfft=%d nwin=%d overlap=%d method=%s range=%s nx=%d", win.name.c_str(), nfft, nwin, overlap, mi ? "wola" : "ola", range_name(range), nx);
            arr_real x = gauss_real(r, nx);
            //the round trip is linear: a quarter of the signals live at an extreme but legal level (1e-250 .. 1e250)
            if (r.below(4) == 0) {
                x *= std::pow(10.0, r.uni(-250, 250));
                vh::obs_add("istft_signals_at_extreme_level");
            }
            const auto S = dl::stft(x, win.w, overlap, nfft, range);
            const arr_real y = dl::istft(S, win.w, overlap, nfft, range, method);
            vh::Hasher h;
            h.s("istft").s(win.name).i(nfft).i(nwin).i(overlap).i(mi).i(int(range)).u64(hash_arr(x));
            vh::count(h.get(), true);
            const int nseg = int(S.size());
            const int ylen = nwin + (nseg - 1) * hop;
            const std::string cfg = vh::fmt("win=%s nfft=%d nwin=%d overlap=%d method=%s range=%s nx=%d nseg=%d", win.name.c_str(), nfft, nwin, overlap, mi ? "wola" : "ola",
                                            range_name(range), nx, nseg);
            if (nseg < 1 || y.size() != ylen || ylen > nx) {
                vh::violation("C02/istft/length", cfg + vh::fmt(" returned %d samples", y.size()));
                continue;
            }
            //segment size check
            const int want_bins = (range == dl::StftRange::Onesided) ? (nfft / 2 + 1) : nfft;
            if (S[0].size() != want_bins) {
                vh::violation("C02/stft/bins", cfg + vh::fmt(" segment has %d bins", S[0].size()));
            }
            //accumulated weight
            std::vector<ld> wgt(ylen, 0);
            for (int s = 0; s < nseg; ++s) {
                for (int i = 0; i < nwin; ++i) {
                    ld v = win.w[i];
                    wgt[s * hop + i] += (mi == 0) ? v : v * v;
                }
            }
            //amplification of the inverse transform's rounding error (about 8*eps*log2(nfft)*max|x| per frame sample) by the
            //normalisation: sum over covering frames of |w|^(pw-1), divided by the accumulated weight
            std::vector<ld> amp(ylen, 0);
            for (int s = 0; s < nseg; ++s) {
                for (int i = 0; i < nwin; ++i) {
                    amp[s * hop + i] += (mi == 0) ? 1.0L : fabsl(ld(win.w[i]));
                }
            }
            const ld mx = maxabs(x);
            const ld unit = 64 * ref::EPS * std::max<ld>(1, log2l(ld(nfft))) * mx;
            int nonfinite = -1;
            int bad = -1;
            ld worst = 0;
            for (int i = 0; i < ylen; ++i) {
                if (!std::isfinite(y[i])) {
                    if (nonfinite < 0) {
                        nonfinite = i;
                    }
                    continue;
                }
                if (!(wgt[i] > 0)) {
                    vh::obs_add("istft_samples_zero_weight");
                    continue;
                }
                //every sample with non-zero weight is judged as long as the reconstruction is numerically meaningful there
                const ld tol = std::max(1e-9L * mx, unit * amp[i] / wgt[i]);
                if (tol > 1e-3L * mx) {
                    vh::obs_add("istft_samples_weight_too_small_to_judge");
                    continue;
                }
                const ld e = fabsl(ld(y[i]) - ld(x[i]));
                if (e / tol > worst) {
                    worst = e / tol;
                }
                if (e > tol && bad < 0) {
                    bad = i;
                }
                vh::obs_add("istft_samples_judged");
                if (tol > 1e-9L * mx) {
                    vh::obs_add("istft_samples_judged_with_small_weight");
                }
            }
            vh::obs_max("istft_err_over_tol", double(worst));
            const char* wtail = (win.w[nwin - 1] == 0.0) ? "window_ends_in_zero" : "window_nonzero_end";
            if (nonfinite >= 0) {
                vh::violation(vh::fmt("C02/istft/nonfinite/%s", wtail), cfg + vh::fmt(" sample %d of %d is not finite (weight there %.3Le)", nonfinite, ylen, wgt[nonfinite]));
            }
            if (bad >= 0) {
                vh::violation(vh::fmt("C02/istft/mismatch/%s/%s", mi ? "wola" : "ola", range_name(range)),
                              cfg + vh::fmt(" y[%d]=%.17g x[%d]=%.17g (accumulated weight %.3Le), worst err/tolerance %.3Le (max|x|=%.3Le)", bad, y[bad], bad, x[bad], wgt[bad], worst, mx));
            }
            if (win.name == "hann_per" && nfft == 16) {
                vh::sample(cfg);
            }
        }
    }
}

int main(int argc, char** argv) {
    vh::init(argc, argv, "C02");
    const bool thorough = vh::g.thorough();
    uint64_t idx = 0;
    const int residue = int(vh::rng_for("residue").below(8));

    const int full = thorough ? 8192 : 1024;
    for (int n = 1; n <= 8192; ++n) {
        if (!(n <= full || (n % 8) == residue)) {
            continue;
        }
        if (!vh::mine(idx++)) {
            continue;
        }
        vh::Rng r = vh::rng_for("ifft", n);
        for (int rep = 0; rep < (thorough ? 3 : 1); ++rep) {
            check_ifft(n, r);
            check_irfft(n, r);
        }
        vh::obs_add("lengths_checked");
    }
    {
        std::vector<int> large = {4096, 4098, 6000, 10000, 16384, 20002, 30030, 65536, 2 * 4099, 2 * 8191, 50000, 44100, 48000};
        if (!thorough) {
            large = {4096, 4098, 10000, 2 * 4099, 30030};
        }
        for (int n : large) {
            if (!vh::mine(idx++)) {
                continue;
            }
            vh::Rng r = vh::rng_for("ifft", n);
            check_ifft(n, r);
            check_irfft(n, r);
            check_irfft(n + 1, r);
            vh::obs_add("large_lengths_checked");
        }
    }

    //STFT grid
    std::vector<int> nffts = {8, 16, 32, 64, 128, 256, 512, 1024, 12, 20, 36, 100, 400, 600, 24, 48, 50, 96, 200, 2048};
    if (thorough) {
        nffts.push_back(4096);
        nffts.push_back(34);
        nffts.push_back(250);
    }
    const int dense = thorough ? 128 : 64;
    for (int nfft : nffts) {
        std::vector<int> nwins = {nfft};
        if (nfft >= 16) {
            nwins.push_back(nfft / 2);
            if (thorough) {
                nwins.push_back(nfft - 3);
            }
        }
        for (int nwin : nwins) {
            const auto wins = windows(nwin);
            std::vector<int> overlaps;
            if (nwin <= dense) {
                for (int o = 0; o < nwin; ++o) {
                    overlaps.push_back(o);
                }
            } else {
                overlaps = {0, nwin / 2, nwin * 3 / 4, nwin * 2 / 3, nwin - 1, nwin - 2, nwin / 4, nwin - nwin / 8, nwin / 2 + 1, nwin / 3};
            }
            for (size_t wi = 0; wi < wins.size(); ++wi) {
                for (int ov : overlaps) {
                    if (ov < 0 || ov >= nwin) {
                        continue;
                    }
                    if (!thorough && nwin > 64 && (nfft > 256) && (ov == nwin - 1 || ov == nwin - 2)) {
                        continue;   //quick: skip the most expensive dense overlaps of the largest sizes
                    }
                    if (!vh::mine(idx++)) {
                        continue;
                    }
                    vh::Hasher h;
                    h.i(nfft).i(nwin).i(wi).i(ov);
                    vh::Rng r = vh::rng_for("stft", h.get());
                    for (int rep = 0; rep < (thorough ? 4 : 1); ++rep) {
                        check_stft(nfft, nwin, wins[wi], ov, r);
                    }
                }
            }
        }
    }
    //default-argument overloads
    if (vh::mine(idx++)) {
        vh::Rng r = vh::rng_for("stftdef");
        for (int nfft : {16, 64, 256}) {
            vh::begin_case("istft_default", "nfft=%d", nfft);
            const arr_real x = gauss_real(r, nfft * 5 + 3);
            const arr_real y = dl::istft(dl::stft(x, nfft), nfft);
            vh::Hasher h;
            h.s("default").i(nfft);
            vh::count(h.get(), true);
            ld worst = 0;
            bool fin = true;
            for (int i = 1; i < y.size(); ++i) {   //periodic hann: only sample 0 has zero weight
                fin = fin && std::isfinite(y[i]);
                worst = std::max(worst, fabsl(ld(y[i]) - x[i]));
            }
            fin = fin && (y.size() > 0) && std::isfinite(y[0]);
            if (!fin || worst > 1e-9L * maxabs(x)) {
                vh::violation("C02/istft/default_overload", vh::fmt("istft(stft(x,%d),%d): finite=%d worst err %.3Le", nfft, nfft, int(fin), worst));
            }
        }
    }
    vh::g.exhaustive = true;
    return vh::finish();
}
