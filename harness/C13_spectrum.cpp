// C13 - spectral estimates conserve power and label frequencies correctly.
#include "dsp.h"

using namespace vd;
namespace dl = dsplib;
namespace W = dsplib::window;

struct WelchRef
{
    RV pxx;          //natural FFT order, length nfft (two-sided)
    ld mean_seg_pow; //mean over segments of sum |x w|^2
    ld sw2;
    ld sw;
    int nseg;
};

static WelchRef welch_ref(const CV& x, const arr_real& win, int noverlap, int nfft, bool power) {
    WelchRef r;
    const int N = int(x.size());
    const int wl = win.size();
    const int stride = wl - noverlap;
    r.nseg = (N - wl) / stride + 1;
    r.sw2 = 0;
    r.sw = 0;
    for (int i = 0; i < wl; ++i) {
        r.sw2 += ld(win[i]) * win[i];
        r.sw += win[i];
    }
    const ld norm = power ? r.sw * r.sw : r.sw2;
    r.pxx.assign(nfft, 0);
    r.mean_seg_pow = 0;
    for (int s = 0; s < r.nseg; ++s) {
        CV seg(nfft);
        ld sp = 0;
        for (int i = 0; i < wl && i < nfft; ++i) {
            seg[i] = x[s * stride + i] * ld(win[i]);
            sp += ref::abs2(seg[i]);
        }
        r.mean_seg_pow += sp;
        const CV S = ref::dft_fast(seg, -1);
        for (int k = 0; k < nfft; ++k) {
            r.pxx[k] += ref::abs2(S[k]) / norm;
        }
    }
    for (auto& v : r.pxx) {
        v /= r.nseg;
    }
    r.mean_seg_pow /= r.nseg;
    return r;
}

static arr_real make_window(int kind, int n) {
    switch (kind) {
    case 0:
        return W::hamming(n);
    case 1:
        return W::hann(n);
    case 2:
        return W::blackman(n);
    case 3:
        return dl::ones(n);
    case 4:
        return W::kaiser(n, 6.0);
    case 5:
        return W::blackmanharris(n);
    case 6:
        return W::gauss(n);
    case 7:
        return W::cosine(n);
    case 8: {
        //flat-top: a custom window with negative coefficients
        arr_real w(n);
        for (int i = 0; i < n; ++i) {
            const double t = 2 * 3.14159265358979323846 * i / (n - 1);
            w[i] = 0.21557895 - 0.41663158 * std::cos(t) + 0.277263158 * std::cos(2 * t) - 0.083578947 * std::cos(3 * t) + 0.006947368 * std::cos(4 * t);
        }
        return w;
    }
    case 9:
        return W::tukey(n, 0.5);     //zero-ended like hann, different inside
    case 10:
        return W::tukey(n, 0.25);
    default:
        return W::hann(n) * 0.7;     //a scaled copy: same shape, same end taps as hann, other normaliser
    }
}
static const char* WKN[] = {"hamming", "hann", "blackman", "rect", "kaiser6", "blackmanharris", "gauss", "cosine", "flattop(custom)", "tukey0.5", "tukey0.25", "0.7*hann"};

static bool check_axis(const arr_real& f, int nfft, bool cplx, const std::string& cfg) {
    const int want = cplx ? nfft : nfft / 2 + 1;
    if (f.size() != want) {
        vh::violation(vh::fmt("C13/welch/f_length/%s", cplx ? "complex" : "real"), cfg + vh::fmt(": f has %d entries, expected %d", f.size(), want));
        return false;
    }
    for (int i = 1; i < f.size(); ++i) {
        if (!(std::fabs((f[i] - f[i - 1]) - 1.0 / nfft) <= 4 * ref::EPS)) {
            vh::violation(vh::fmt("C13/welch/f_spacing/%s", cplx ? "complex" : "real"), cfg + vh::fmt(": f[%d]-f[%d]=%.17g, expected 1/nfft", i, i - 1, f[i] - f[i - 1]));
            return false;
        }
    }
    if (!cplx && (f[0] != 0.0 || std::fabs(f[f.size() - 1] - 0.5) > 4 * ref::EPS)) {
        vh::violation("C13/welch/f_range/real", cfg + vh::fmt(": f runs from %.17g to %.17g, expected 0..0.5", f[0], f[f.size() - 1]));
        return false;
    }
    if (cplx && !(f[0] > -0.5 - 1e-12 && f[f.size() - 1] <= 0.5 + 1e-12)) {
        vh::violation("C13/welch/f_range/complex", cfg + vh::fmt(": f runs from %.17g to %.17g, expected inside (-0.5,0.5]", f[0], f[f.size() - 1]));
        return false;
    }
    return true;
}

static void check_welch_random(int nfft, int wl, int ov, int wk, bool cplx, bool power, int N, vh::Rng& r, bool default_overload) {
    const arr_real win = make_window(wk, wl);
    const std::string cfg = vh::fmt("welch(%s x[%d], win=%s[%d], noverlap=%d, nfft=%d, %s)%s", cplx ? "complex" : "real", N, WKN[wk], wl, ov, nfft, power ? "power" : "psd",
                                    default_overload ? " [short overload]" : "");
    vh::begin_case("welch", "%s", cfg.c_str());
    arr_cmplx xc = gauss_cmplx(r, N);
    //coloured: add a tone and a slow drift so that the spectrum is not flat
    const double f0 = r.uni(-0.45, 0.45);
    for (int i = 0; i < N; ++i) {
        xc[i].re += 2.0 * std::cos(2 * 3.141592653589793 * f0 * i) + 0.3;
        xc[i].im += 2.0 * std::sin(2 * 3.141592653589793 * f0 * i);
    }
    arr_real xr = dl::real(xc);
    dl::WelchResult res = cplx ? (default_overload ? dl::welch(xc, win, power ? dl::SpectrumType::Power : dl::SpectrumType::Psd)
                                                   : dl::welch(xc, win, ov, nfft, power ? dl::SpectrumType::Power : dl::SpectrumType::Psd))
                               : (default_overload ? dl::welch(xr, win, power ? dl::SpectrumType::Power : dl::SpectrumType::Psd)
                                                   : dl::welch(xr, win, ov, nfft, power ? dl::SpectrumType::Power : dl::SpectrumType::Psd));
    vh::Hasher hh;
    hh.s(cfg).u64(hash_arr(xc));
    vh::count(hh.get(), true);
    const int want = cplx ? nfft : nfft / 2 + 1;
    const char* ck = cplx ? "complex" : "real";
    if (res.pxx.size() != want) {
        vh::violation(vh::fmt("C13/welch/length/%s", ck), cfg + vh::fmt(": %d values, expected %d", res.pxx.size(), want));
        return;
    }
    if (!check_axis(res.f, nfft, cplx, cfg)) {
        return;
    }
    const WelchRef wr = welch_ref(cplx ? to_ref(xc) : to_refc(xr), win, ov, nfft, power);
    ld mxref = 0;
    for (auto v : wr.pxx) {
        mxref = std::max(mxref, v);
    }
    ld sum = 0;
    //known pinned-tree behaviour for complex input: spectrum in FFT bin order under a centred axis. It is told apart from
    //any other disagreement: hypothesis H2 = "value i is the estimate of bin i".
    bool h2 = cplx;
    bool known_reported = false;
    for (int i = 0; cplx && h2 && i < want; ++i) {
        h2 = fabsl(ld(res.pxx[i]) - wr.pxx[i]) <= 1e-10L * mxref;
    }
    for (int i = 0; i < want; ++i) {
        const double v = res.pxx[i];
        if (!(v >= 0) || !std::isfinite(v)) {
            vh::violation(vh::fmt("C13/welch/negative_or_nonfinite/%s", ck), cfg + vh::fmt(": pxx[%d]=%.17g", i, v));
            return;
        }
        sum += v;
        //the value listed at frequency f[i] must be the estimate at that frequency
        const long k = lround(ld(res.f[i]) * nfft);
        const int kk = int(((k % nfft) + nfft) % nfft);
        ld want_v = wr.pxx[kk];
        if (!cplx && kk != 0 && kk != nfft / 2) {
            want_v *= 2;   //one-sided folding
        }
        const ld e = fabsl(ld(v) - want_v);
        if (known_reported) {
            continue;   //keep summing for the conservation check
        }
        if (!(e <= 1e-10L * mxref)) {
            if (h2) {
                vh::violation("C13/welch/complex/spectrum_in_fft_order_but_axis_centred",
                              cfg + vh::fmt(": value listed at f=%.6f (index %d) is %.17g but the estimate at that frequency is %.17Lg; the returned values equal the estimates in FFT bin order", res.f[i], i, v, want_v));
                known_reported = true;
                continue;
            } else {
                vh::violation(vh::fmt("C13/welch/value/%s/%s", ck, power ? "power" : "psd"),
                              cfg + vh::fmt(": value listed at f=%.6f (index %d) is %.17g, reference Welch estimate at that frequency %.17Lg (max %.3Le)", res.f[i], i, v, want_v, mxref));
            }
            return;
        }
        vh::obs_max("welch_err_over_max", double(e / mxref));
    }
    //conservation (density scaling), independent of the reference spectrum
    if (!power) {
        const ld want_sum = ld(nfft) * wr.mean_seg_pow / wr.sw2;
        const ld rel = fabsl(sum - want_sum) / want_sum;
        vh::obs_max("density_sum_rel_err", double(rel));
        vh::obs_add("density_sum_checks");
        if (!(rel <= 1e-10L)) {
            vh::violation(vh::fmt("C13/welch/power_not_conserved/%s", ck), cfg + vh::fmt(": sum(pxx)=%.17Lg, nfft*mean(sum|x w|^2)/sum(w^2)=%.17Lg", sum, want_sum));
        }
    }
}

//window transform magnitude at normalised frequency f (cycles/sample)
static ld win_tf(const arr_real& w, ld f) {
    ld sr = 0, si = 0;
    for (int i = 0; i < w.size(); ++i) {
        const ld a = fmodl(2 * ref::PI_L * f * i, 2 * ref::PI_L);
        sr += w[i] * cosl(a);
        si += w[i] * sinl(a);
    }
    return hypotl(sr, si);
}

static void check_tone(int nfft, int wl, int wk, bool cplx, vh::Rng& r, int sub) {
    if (wl < 8) {
        //windows of a few points are degenerate for tone tests (blackman(3) = {0,1,0} has a flat transform)
        vh::skip("tone_checks_need_window_of_8_points");
        return;
    }
    const arr_real win = make_window(wk, wl);
    const int ov = int(r.below(wl));
    const int stride = wl - ov;
    const int N = wl + stride * int(r.range(3, 12));
    const char* ck = cplx ? "complex" : "real";
    //---- power scaling with a bin-centred tone
    {
        const int kbin = cplx ? int(r.range(-nfft / 2 + 1, nfft / 2)) : int(r.range(2, nfft / 2 - 2));
        const double A = r.uni(0.5, 3.0);
        const double ph = r.uni(-3, 3);
        arr_cmplx xc(N);
        arr_real xr(N);
        for (int i = 0; i < N; ++i) {
            const long double a = 2 * ref::PI_L * (long double)(((long long)kbin * i) % nfft) / nfft + ph;
            xc[i] = cmplx_t{A * double(cosl(a)), A * double(sinl(a))};
            xr[i] = A * double(cosl(a));
        }
        const std::string cfg = vh::fmt("welch(%s tone A=%.3f at bin %d of %d, win=%s[%d], noverlap=%d, power)", ck, A, kbin, nfft, WKN[wk], wl, ov);
        vh::begin_case("welch_power", "%s", cfg.c_str());
        const dl::WelchResult res = cplx ? dl::welch(xc, win, ov, nfft, dl::SpectrumType::Power) : dl::welch(xr, win, ov, nfft, dl::SpectrumType::Power);
        vh::Hasher hh;
        hh.s(cfg);
        vh::count(hh.get(), true);
        if (nfft >= 16 && (cplx || (kbin >= 2 && kbin <= nfft / 2 - 2))) {
            //a flat-top window's transform ripples slightly ABOVE its value at 0 next to the centre, so with zero padding the maximum of
            //the estimate is not at the tone's bin; for that window the value at the tone's own bin is judged (complex estimates are
            //stored in transform order: bin k at index k mod nfft)
            const int tone_index = cplx ? ((kbin % nfft) + nfft) % nfft : kbin;
            const double pk = (wk == 8 && tone_index < res.pxx.size()) ? res.pxx[tone_index] : dl::max(res.pxx);
            const ld want = cplx ? ld(A) * A : ld(A) * A / 2;
            ld tol = 1e-9L;
            bool judge = true;
            if (!cplx) {
                //the mirror component at -f0 leaks into the bin: |1 + rho e^{j theta}|^2 - 1 <= 2 rho + rho^2; only judged when the
                //window resolves the two components (otherwise the maximum need not even sit on the tone's bin)
                const ld rho = win_tf(win, ld(2 * kbin) / nfft) / win_tf(win, 0);
                tol += 4 * rho;
                judge = (rho <= 0.01L) && (wl >= nfft / 2) && (ld(kbin) / nfft >= ld(4) / wl) && (0.5L - ld(kbin) / nfft >= ld(4) / wl);
            }
            const ld rel = fabsl(ld(pk) - want) / want;
            if (!judge) {
                vh::skip("real_tone_power_mirror_leakage_not_negligible");
            } else {
                vh::obs_add("power_scaling_checks");
            }
            if (judge && !(rel <= tol)) {
                vh::violation(vh::fmt("C13/welch/power_scaling/%s", ck), cfg + vh::fmt(": peak %.12g, mean-square value of the tone %.12Lg (rel. dev %.3Le, allowed %.3Le)", pk, want, rel, tol));
            }
        }
    }
    //---- labelling: tone on a grid 8x finer than the bin spacing
    {
        const int fine = 8 * nfft;
        if (!cplx && nfft < 16) {
            return;   //no room between the excluded zones around 0 and 0.5
        }
        if (wk == 8) {
            vh::skip("flat_top_main_lobe_too_flat_for_the_nearest_bin_rule");
            return;   //a flat-top window's main lobe is level to 0.01 dB over a bin: neighbouring bins tie within rounding
        }
        int q;
        if (cplx) {
            q = int(r.range(-fine / 2 + 8, fine / 2 - 8));
        } else {
            const int lo = std::max(3 * 8, int(std::ceil(8.0 / wl * fine)) + 1);
            const int hi = std::min(fine / 2 - 3 * 8, int(std::floor((0.5 - 8.0 / wl) * fine)) - 1);
            q = (lo < hi) ? int(r.range(lo, hi)) : int(r.range(3 * 8, fine / 2 - 3 * 8));
        }
        (void)sub;
        if (((q % 8) + 8) % 8 == 4) {
            q += 1;   //exact half-bin ties are skipped
        }
        if (!cplx) {
            //a real tone has a mirror component at -f0 whose leakage moves the peak: judge only when the window resolves
            //the two (f0 and 0.5-f0 at least 8/wl, little zero padding) and the tone is a quarter bin away from a tie
            const int m = ((q % 8) + 8) % 8;
            if (m == 3) {
                q -= 1;
            }
            if (m == 5) {
                q += 1;
            }
            const ld f0r = ld(q) / fine;
            if (wl < nfft / 2 || f0r < ld(8) / wl || (0.5L - f0r) < ld(8) / wl) {
                vh::skip("real_tone_label_not_resolvable_by_window");
                return;
            }
        }
        const ld f0 = ld(q) / fine;
        const double ph = r.uni(-3, 3);
        const int NN = wl + stride * 6;
        arr_cmplx xc(NN);
        arr_real xr(NN);
        for (int i = 0; i < NN; ++i) {
            const long double a = 2 * ref::PI_L * (long double)(((long long)q * i) % fine) / fine + ph;
            xc[i] = cmplx_t{double(cosl(a)), double(sinl(a))};
            xr[i] = double(cosl(a));
        }
        const std::string cfg = vh::fmt("welch(%s tone at f0=%.6Lf, win=%s[%d], noverlap=%d, nfft=%d)", ck, f0, WKN[wk], wl, ov, nfft);
        vh::begin_case("welch_label", "%s", cfg.c_str());
        const dl::WelchResult res = cplx ? dl::welch(xc, win, ov, nfft) : dl::welch(xr, win, ov, nfft);
        vh::Hasher hh;
        hh.s(cfg);
        vh::count(hh.get(), true);
        if (res.f.size() != res.pxx.size() || res.pxx.size() == 0) {
            vh::violation(vh::fmt("C13/welch/f_length/%s", ck), cfg + ": f and pxx differ in length");
            return;
        }
        const int im = dl::argmax(res.pxx);
        //nearest listed frequency (for complex input frequencies are equivalent modulo 1)
        int nearest = 0;
        ld bestd = 1e9;
        for (int i = 0; i < res.f.size(); ++i) {
            ld d = fabsl(ld(res.f[i]) - f0);
            if (cplx) {
                d = std::min(d, fabsl(d - 1));
            }
            if (d < bestd) {
                bestd = d;
                nearest = i;
            }
        }
        vh::obs_add(cplx ? "label_checks_complex" : "label_checks_real");
        //known pinned-tree behaviour (complex): the maximum sits at the index of the FFT-order bin nearest the tone
        const int fftbin = int(((lround(f0 * nfft) % nfft) + nfft) % nfft);
        if (im != nearest && cplx && im == fftbin) {
            vh::violation("C13/welch/complex/spectrum_in_fft_order_but_axis_centred", cfg + vh::fmt(": maximum is listed at f=%.6f (index %d = FFT bin of the tone) but the entry nearest the tone is f=%.6f (index %d)", res.f[im], im, res.f[nearest], nearest));
        } else if (im != nearest) {
            vh::violation(vh::fmt("C13/welch/label/%s", ck), cfg + vh::fmt(": maximum is listed at f=%.6f (index %d) but the entry nearest the tone is f=%.6f (index %d)", res.f[im], im, res.f[nearest], nearest));
        }
    }
}

static void check_mscohere(int nfft, int wl, int wk, vh::Rng& r) {
    const arr_real win = make_window(wk, wl);
    const int ov = int(r.below(wl));
    const int stride = wl - ov;
    const int N = wl + stride * int(r.range(4, 30));
    //coherence is a ratio: it must not depend on the absolute level of the records (levels over 240 dB)
    const double level = std::pow(10.0, r.uni(-6.0, 6.0));
    const arr_real x = gauss_real(r, N, level);
    const std::string base = vh::fmt("mscohere(x[%d] at level %.2e, y, win=%s[%d], noverlap=%d, nfft=%d)", N, level, WKN[wk], wl, ov, nfft);
    for (int kind = 0; kind < 3; ++kind) {
        arr_real y(N);
        const char* kn = kind == 0 ? "scaled copy" : (kind == 1 ? "filtered copy + noise" : "independent noise");
        if (kind == 0) {
            const double a = r.logmag(1e-6, 1e6);
            for (int i = 0; i < N; ++i) {
                y[i] = a * x[i];
            }
        } else if (kind == 1) {
            for (int i = 0; i < N; ++i) {
                y[i] = 0.8 * x[i] - 0.5 * (i > 0 ? x[i - 1] : 0) + 0.2 * (i > 2 ? x[i - 3] : 0) + 0.3 * level * r.gauss();
            }
        } else {
            y = gauss_real(r, N, level * std::pow(10.0, r.uni(-3.0, 3.0)));
        }
        vh::begin_case("mscohere", "%s y=%s", base.c_str(), kn);
        arr_real c;
        {
            std::string what;
            if (try_call([&] { c = dl::mscohere(x, y, win, ov, nfft); }, &what) != Outcome::Returned) {
                vh::violation("C13/mscohere/threw", base + vh::fmt(" y=%s: threw on valid arguments: %s", kn, what.c_str()));
                continue;
            }
        }
        vh::Hasher hh;
        hh.s(base).i(kind).u64(hash_arr(x));
        vh::count(hh.get(), true);
        if (c.size() != nfft / 2 + 1) {
            vh::violation("C13/mscohere/length", base + vh::fmt(": %d values", c.size()));
            continue;
        }
        //reference coherence
        const int nseg = (N - wl) / stride + 1;
        std::vector<ld> pxx(nfft / 2 + 1, 0), pyy(nfft / 2 + 1, 0);
        CV pxy(nfft / 2 + 1);
        for (int s = 0; s < nseg; ++s) {
            CV a(nfft), b(nfft);
            for (int i = 0; i < wl && i < nfft; ++i) {
                a[i] = C{ld(x[s * stride + i]) * win[i], 0};
                b[i] = C{ld(y[s * stride + i]) * win[i], 0};
            }
            const CV Aa = ref::dft_fast(a, -1);
            const CV Bb = ref::dft_fast(b, -1);
            for (int k = 0; k <= nfft / 2; ++k) {
                pxx[k] += ref::abs2(Aa[k]);
                pyy[k] += ref::abs2(Bb[k]);
                pxy[k] = pxy[k] + Aa[k] * ref::conj(Bb[k]);
            }
        }
        for (int k = 0; k <= nfft / 2; ++k) {
            const ld want = ref::abs2(pxy[k]) / (pxx[k] * pyy[k]);
            const double v = c[k];
            if (!(v >= -1e-12 && v <= 1 + 1e-12)) {
                vh::violation("C13/mscohere/range", base + vh::fmt(" y=%s: value %.17g at bin %d outside [0,1]", kn, v, k));
                break;
            }
            if (kind == 0 && !(std::fabs(v - 1) <= 1e-9)) {
                vh::violation("C13/mscohere/scaled_copy_not_one", base + vh::fmt(": coherence of a scaled copy is %.17g at bin %d", v, k));
                break;
            }
            if (!(fabsl(ld(v) - want) <= 1e-9L)) {
                vh::violation("C13/mscohere/value", base + vh::fmt(" y=%s: bin %d: %.17g, reference %.17Lg", kn, k, v, want));
                break;
            }
        }
        vh::obs_add("mscohere_checks");
    }
    //short overloads agree with the explicit ones
    {
        const arr_real y = gauss_real(r, N);
        int nf = 1;
        while (nf < wl) {
            nf <<= 1;
        }
        const arr_real c1 = dl::mscohere(x, y, wl);
        const arr_real c2 = dl::mscohere(x, y, W::hamming(wl), wl / 2, nf);
        const arr_real c3 = dl::mscohere(x, y, W::hamming(wl));
        const arr_real c4 = dl::mscohere(x, y, wl, wl / 2, nf);
        if (!bit_equal(c1, c2) || !bit_equal(c3, c2) || !bit_equal(c4, c2)) {
            vh::violation("C13/mscohere/overloads", base + ": the short overloads (hamming window, winlen/2 overlap, nfft=2^nextpow2(winlen)) differ from the explicit call");
        }
    }
}

int main(int argc, char** argv) {
    vh::init(argc, argv, "C13");
    const bool thorough = vh::g.thorough();
    uint64_t idx = 0;
    std::vector<int> nffts = {8, 16, 32, 64, 128, 256, 512, 1024, 2048, 4096};
    const int reps = thorough ? 400 : 24;
    for (int nfft : nffts) {
        for (int rep = 0; rep < reps; ++rep) {
            for (int cplx = 0; cplx < 2; ++cplx) {
                if (!vh::mine(idx++)) {
                    continue;
                }
                vh::Rng r = vh::rng_for("welch", (uint64_t(nfft) * 100 + rep) * 2 + cplx);
                //window lengths <= nfft
                std::vector<int> wls = {nfft, std::max(3, nfft / 2 + 1), int(r.range(3, nfft))};
                for (int wl : wls) {
                    const int wk = int(r.below(12));
                    //overlaps: 0, wl/2, wl-1 and random
                    std::vector<int> ovs = {0, wl / 2, int(r.below(wl))};
                    if (nfft <= 256) {
                        ovs.push_back(wl - 1);
                    }
                    for (int ov : ovs) {
                        const int stride = wl - ov;
                        const int maxseg = (nfft >= 1024) ? 12 : 60;
                        const int nseg = int(r.range(1, maxseg));
                        const int N = std::min(100000, wl + stride * (nseg - 1) + int(r.below(stride)));
                        check_welch_random(nfft, wl, ov, wk, cplx != 0, r.coin(), N, r, false);
                    }
                    //short overloads: hamming/ custom window, winlen/2 overlap, nfft = 2^nextpow2(winlen)
                    int nf = 1;
                    while (nf < wl) {
                        nf <<= 1;
                    }
                    check_welch_random(nf, wl, wl / 2, wk, cplx != 0, r.coin(), wl * 4 + 3, r, true);
                    const int tones = (nfft <= 512) ? (thorough ? 12 : 5) : 2;
                    for (int t = 0; t < tones; ++t) {
                        check_tone(nfft, wl, int(r.below(12)), cplx != 0, r, t);
                    }
                }
                if (cplx == 0) {
                    check_mscohere(nfft, std::max(3, nfft / 2), int(r.below(12)), r);
                    if (nfft <= 1024) {
                        check_mscohere(nfft, nfft, int(r.below(12)), r);
                    }
                }
            }
        }
    }
    //---- call histories: consecutive estimates in one thread with windows of the SAME length that share their end taps (hann, tukey,
    //scaled hann, blackman, flat-top) and alternate scaling types - each compared with the long-double estimate as usual
    {
        const int nh = thorough ? 300 : 40;
        for (int hidx = 0; hidx < nh; ++hidx) {
            if (!vh::mine(idx++)) {
                continue;
            }
            vh::Rng r = vh::rng_for("welchhist", hidx);
            const int nfft = 1 << int(r.range(4, 9));
            const int wl = (r.coin()) ? nfft : int(r.range(8, nfft));
            const int ov = int(r.below(uint64_t(wl)));
            const int order[8] = {1, 9, 10, 11, 2, 8, 1, 9};
            const int steps = int(r.range(4, 8));
            for (int st = 0; st < steps; ++st) {
                const int wk = order[(st + hidx) % 8];
                const int nseg = int(r.range(1, 12));
                const int N = wl + (wl - ov) * (nseg - 1) + int(r.below(uint64_t(wl - ov)));
                check_welch_random(nfft, wl, ov, wk, r.coin(), r.coin(), N, r, false);
                vh::obs_add("welch_history_calls");
            }
        }
    }
    //int-winlen overloads (hamming by default)
    if (vh::mine(idx++)) {
        vh::Rng r = vh::rng_for("intov");
        for (int wl : {16, 50, 128}) {
            const arr_real xr = gauss_real(r, 1000);
            const arr_cmplx xc = gauss_cmplx(r, 1000);
            int nf = 1;
            while (nf < wl) {
                nf <<= 1;
            }
            vh::begin_case("welch_overloads", "winlen=%d", wl);
            vh::Hasher hh;
            hh.s("ov").i(wl);
            vh::count(hh.get(), true);
            const auto a = dl::welch(xr, wl);
            const auto b = dl::welch(xr, W::hamming(wl), wl / 2, nf);
            const auto c = dl::welch(xr, wl, wl / 2, nf);
            const auto d = dl::welch(xc, wl);
            const auto e = dl::welch(xc, W::hamming(wl), wl / 2, nf);
            const auto f = dl::welch(xc, wl, wl / 2, nf, dl::SpectrumType::Psd);
            if (!bit_equal(a.pxx, b.pxx) || !bit_equal(c.pxx, b.pxx) || !bit_equal(d.pxx, e.pxx) || !bit_equal(f.pxx, e.pxx) || !bit_equal(a.f, b.f) || !bit_equal(d.f, e.f)) {
                vh::violation("C13/welch/overloads", vh::fmt("welch(x, winlen=%d) differs from the explicit hamming / winlen/2 / 2^nextpow2 call", wl));
            }
        }
    }
    vh::sample("welch: nfft in {8..4096}, window lengths <= nfft of 8 families, overlaps {0, wl/2, wl-1, random}, psd/power, real/complex: every returned value compared with the long-double Welch estimate AT THE FREQUENCY LISTED in f");
    vh::sample("tone labelling: tone on a grid 8x finer than 1/nfft; f[argmax pxx] must be the listed frequency nearest the tone (real (0,0.5), complex (-0.5,0.5))");
    return vh::finish();
}
