// C18 - delay estimators and the preamble detector recover the true offset.
#include "dsp.h"

using namespace vd;
namespace dl = dsplib;

template<class A>
static A shift(const A& x, int d) {
    const int n = x.size();
    A y(n);
    for (int i = 0; i < n; ++i) {
        const int j = i - d;
        if (j >= 0 && j < n) {
            y[i] = x[j];
        }
    }
    return y;
}

static void check_finddelay(int len, int d, bool cplx, double noise_db, int fs, vh::Rng& r) {
    vh::begin_case("finddelay", "len=%d d=%d %s noise=%.0f dB fs=%d", len, d, cplx ? "complex" : "real", noise_db, fs);
    vh::Hasher hh;
    hh.s("fd").i(len).i(d).i(cplx).d(noise_db).i(fs);
    const std::string cfg = vh::fmt("len=%d, shift d=%d, %s, noise %s", len, d, cplx ? "complex" : "real", noise_db > 200 ? "none" : vh::fmt("%.0f dB below the signal", noise_db).c_str());
    const double na = (noise_db > 200) ? 0.0 : std::pow(10.0, -noise_db / 20);
    if (!cplx) {
        const arr_real x = gauss_real(r, len);
        hh.u64(hash_arr(x));
        vh::count(hh.get(), d != 0);
        arr_real y = dl::delayseq(x, d);
        //delayseq shifts by exactly d samples with zero fill
        if (!bit_equal(y, shift(x, d))) {
            vh::violation("C18/delayseq", cfg + ": delayseq(x,d) is not x shifted by d samples with zero fill");
        }
        for (int i = 0; i < len; ++i) {
            y[i] += na * r.gauss();
        }
        const int got = dl::finddelay(x, y);
        if (got != d) {
            vh::violation(vh::fmt("C18/finddelay/real/%s", na > 0 ? "noisy" : "noiseless"), cfg + vh::fmt(": finddelay(x, delayseq(x,d)) = %d", got));
        }
        const auto g = dl::gccphat(y, x, fs);
        const double est = g.tau * fs;
        vh::obs_max("gccphat_abs_err_samples", std::fabs(est - d));
        if (!(std::fabs(est - d) <= 0.5)) {
            vh::violation(vh::fmt("C18/gccphat/%s", na > 0 ? "noisy" : "noiseless"), cfg + vh::fmt(", fs=%d: gccphat tau*fs = %.6f", fs, est));
        }
        if (g.corr.size() != len) {
            vh::violation("C18/gccphat/corr_length", cfg + vh::fmt(": corr has %d values", g.corr.size()));
        }
        //multi-channel overload
        if (d % 7 == 0) {
            const auto gm = dl::gccphat(std::vector<arr_real>{y, x}, x, fs);
            if (gm.tau.size() != 2 || !(std::fabs(gm.tau[0] * fs - d) <= 0.5) || !(std::fabs(gm.tau[1] * fs) <= 0.5)) {
                vh::violation("C18/gccphat/multichannel", cfg + ": the multi-channel overload disagrees");
            }
        }
    } else {
        const arr_cmplx x = gauss_cmplx(r, len);
        hh.u64(hash_arr(x));
        vh::count(hh.get(), d != 0);
        arr_cmplx y = shift(x, d);
        for (int i = 0; i < len; ++i) {
            y[i] = y[i] + cmplx_t{na * r.gauss(), na * r.gauss()};
        }
        const int got = dl::finddelay(x, y);
        if (got != d) {
            vh::violation(vh::fmt("C18/finddelay/complex/%s", na > 0 ? "noisy" : "noiseless"), cfg + vh::fmt(": finddelay(x, shifted x) = %d", got));
        }
    }
    vh::obs_add("delay_cases");
}

static void check_peakloc(vh::Rng& r) {
    const int n = int(r.range(3, 40));
    arr_real x = gauss_real(r, n);
    const int idx = int(r.below(n));
    //make idx a local peak so that the parabola is well conditioned
    x[idx] = 5.0 + r.uni();
    for (int cyc = 0; cyc < 2; ++cyc) {
        vh::begin_case("peakloc", "n=%d idx=%d cyclic=%d", n, idx, cyc);
        const double got = dl::peakloc(x, idx, cyc != 0);
        vh::Hasher hh;
        hh.s("peakloc").i(n).i(idx).i(cyc).u64(hash_arr(x));
        vh::count(hh.get(), true);
        ld want;
        if (!cyc && (idx == 0 || idx == n - 1)) {
            want = idx;
        } else {
            const ld yl = x[(idx - 1 + n) % n], y0 = x[idx], yr = x[(idx + 1) % n];
            want = ld(idx) + 0.5L * (yl - yr) / (yl - 2 * y0 + yr);
        }
        if (!(fabsl(ld(got) - want) <= 64 * ref::EPS * (n + 1))) {
            vh::violation(vh::fmt("C18/peakloc/%s", cyc ? "cyclic" : "non_cyclic"), vh::fmt("peakloc(x[%d], %d, cyclic=%d) = %.17g, vertex of the parabola through the three samples = %.17Lg", n, idx, cyc, got, want));
        }
    }
}

//---- preambles -------------------------------------------------------------------------------------------------------
static arr_cmplx zadoff_chu(int L, int u) {
    arr_cmplx h(L);
    for (int n = 0; n < L; ++n) {
        const long double ph = -ref::PI_L * u * (long double)((long long)n * (n + (L % 2))) / L;
        h[n] = cmplx_t{double(cosl(ph)), double(sinl(ph))};
    }
    return h;
}
static arr_cmplx m_sequence(int k) {
    //x^k + x^t + 1 primitive trinomials / known taps
    const int taps[11] = {0, 0, 0, 0, 0, 2, 1, 1, 0, 4, 3};   //k=5: x^5+x^2+1, 6: x^6+x+1, 7: x^7+x+1, 9: x^9+x^4+1, 10: x^10+x^3+1
    const int L = (1 << k) - 1;
    std::vector<int> reg(k, 1);
    arr_cmplx h(L);
    for (int i = 0; i < L; ++i) {
        h[i] = cmplx_t{reg[k - 1] ? 1.0 : -1.0, 0};
        const int fb = reg[k - 1] ^ reg[taps[k] - 1];
        for (int j = k - 1; j > 0; --j) {
            reg[j] = reg[j - 1];
        }
        reg[0] = fb;
    }
    return h;
}

static void check_detector(const arr_cmplx& h, const char* pname, double thr, int offset_in_frame, double amp_db, double noise_db, bool with_preamble, vh::Rng& r) {
    const int L = h.size();
    dl::PreambleDetector det(h, thr);
    const int F = det.frame_len();
    const int nframes = (3 * L) / F + 4;
    const int N = nframes * F;
    //preamble ends at sample 'pend' (index of its last sample)
    const int pend = (L / F + 1) * F + offset_in_frame + ((L - 1) % F);
    const double A = std::pow(10.0, amp_db / 20);
    const double na = A * std::pow(10.0, -noise_db / 20);
    arr_cmplx x(N);
    for (int i = 0; i < N; ++i) {
        x[i] = cmplx_t{na * r.gauss(), na * r.gauss()};
    }
    if (with_preamble && pend < N) {
        for (int j = 0; j < L; ++j) {
            const int i = pend - L + 1 + j;
            x[i] = x[i] + h[j] * A;
        }
    }
    const std::string cfg = vh::fmt("PreambleDetector(%s len=%d, thr=%.2f), frame=%d, %s, amplitude %.0f dB, noise %.0f dB below", pname, L, thr, F,
                                    with_preamble ? vh::fmt("preamble ending at stream sample %d (frame %d, offset %d)", pend, pend / F, pend % F).c_str() : "no preamble", amp_db, noise_db);
    vh::begin_case("detector", "%s", cfg.c_str());
    vh::Hasher hh;
    hh.s(cfg).u64(hash_arr(x));
    vh::count(hh.get(), with_preamble);
    //normalised matched-filter statistic in long double
    ld hh2 = 0;
    for (int j = 0; j < L; ++j) {
        hh2 += ld(h[j].re) * h[j].re + ld(h[j].im) * h[j].im;
    }
    std::vector<ld> sr(N, 0);
    for (int i = 0; i < N; ++i) {
        ld cr = 0, ci = 0, pw = 0;
        for (int j = 0; j < L; ++j) {
            const int k = i - L + 1 + j;
            if (k < 0) {
                continue;
            }
            //conj(h[j]) * x[k]
            cr += ld(h[j].re) * x[k].re + ld(h[j].im) * x[k].im;
            ci += ld(h[j].re) * x[k].im - ld(h[j].im) * x[k].re;
            pw += ld(x[k].re) * x[k].re + ld(x[k].im) * x[k].im;
        }
        sr[i] = (pw > 0) ? sqrtl((cr * cr + ci * ci) / (hh2 * pw)) : 0;
    }
    int first_band = -1;
    for (int i = 0; i < N; ++i) {
        if (sr[i] >= 0.93L * thr) {
            first_band = i;
            break;
        }
    }
    const bool expect_none = (first_band < 0);
    const bool clear = (!expect_none) && (sr[first_band] > 1.07L * thr);
    if (!expect_none && !clear) {
        vh::skip("detector_statistic_inside_the_threshold_band_first");
        return;
    }
    //run the detector frame by frame; only the first report is judged
    int rep_frame = -1;
    dl::PreambleDetector::Result rep;
    //in half of the streams one call with a wrong frame length is made somewhere before the preamble completes; it is rejected with
    //an exception and is not part of the stream, so nothing that follows may change
    const int reject_before = (r.below(2) == 0 && F > 1) ? int(r.below(uint64_t(std::max(1, pend / F + 1)))) : -1;
    const bool multi_frame = (r.below(3) == 0);
    if (multi_frame) {
        vh::obs_add("detector_streams_fed_several_frames_per_call");
    }
    for (int f = 0; f < nframes && rep_frame < 0; ++f) {
        if (f == reject_before) {
            const int badlen = (r.below(3) == 0) ? 1 : ((r.coin() ? F - 1 : F + 1));
            arr_cmplx junk(badlen);
            for (int i = 0; i < badlen; ++i) {
                junk[i] = cmplx_t{A * r.gauss(), A * r.gauss()};
            }
            try {
                (void)det.process(junk);
                vh::skip("detector_accepted_a_frame_of_another_length");
                return;
            } catch (const std::exception&) {
                vh::obs_add("detector_rejected_calls_inside_streams");
            }
        }
        //a third of the streams are fed several frames per call (any multiple of frame_len() is admissible): the reported offset is
        //then the index inside that call's input
        const int per_call = multi_frame ? std::min(nframes - f, int(r.range(1, 4))) : 1;
        arr_cmplx fr(F * per_call);
        for (int i = 0; i < F * per_call; ++i) {
            fr[i] = x[f * F + i];
        }
        const auto res = det.process(fr);
        if (res.has_value()) {
            rep = *res;
            rep_frame = f + rep.offset / F;   //converted to (frame, offset in frame) of the stream
            rep.offset = rep.offset % F;
        }
        f += per_call - 1;
    }
    if (expect_none) {
        vh::obs_add("detector_streams_expecting_silence");
        if (rep_frame >= 0) {
            vh::violation("C18/detector/false_detection", cfg + vh::fmt(": reported a detection in frame %d offset %d (score %.4f) although the normalised statistic never reaches 0.93*threshold (max %.4Lf)", rep_frame,
                                                                        rep.offset, rep.score, *std::max_element(sr.begin(), sr.end())));
        }
        return;
    }
    const int istar = first_band;
    vh::obs_add("detector_streams_expecting_detection");
    const bool at_true_end = with_preamble && (istar == pend);
    if (at_true_end) {
        vh::obs_add("detections_at_true_preamble_end");
    }
    if (rep_frame < 0) {
        vh::violation("C18/detector/missed", cfg + vh::fmt(": nothing reported although the statistic reaches %.4Lf (> 1.07*threshold) at stream sample %d", sr[istar], istar));
        return;
    }
    if (rep_frame != istar / F || rep.offset != istar % F) {
        vh::violation("C18/detector/offset", cfg + vh::fmt(": first report in frame %d at offset %d, expected frame %d offset %d (stream sample %d, statistic %.4Lf)", rep_frame, rep.offset, istar / F, istar % F, istar, sr[istar]));
        return;
    }
    bool pre_ok = rep.preamble.size() == L;
    for (int j = 0; pre_ok && j < L; ++j) {
        const int k = istar - L + 1 + j;
        const cmplx_t want = (k >= 0) ? x[k] : cmplx_t{0, 0};
        pre_ok = (rep.preamble[j].re == want.re) && (rep.preamble[j].im == want.im);
    }
    if (!pre_ok) {
        vh::violation("C18/detector/preamble_samples", cfg + ": the returned preamble is not the len stream samples ending at the detection point");
    }
    vh::obs_max("detector_score_dev_from_statistic", double(fabsl(ld(rep.score) - sr[istar])));
    //at the true end the normalised statistic itself is >= 0.9995 (noise at least 30 dB below): "near 1" is judged with 3 % of slack
    if (at_true_end && !(rep.score >= 0.97 && rep.score <= 1 + 1e-9)) {
        vh::violation("C18/detector/score", cfg + vh::fmt(": score %.6f at the true end of the preamble (expected near 1)", rep.score));
    }
    if (!(rep.score > thr * 0.93)) {
        vh::violation("C18/detector/score_below_threshold", cfg + vh::fmt(": score %.6f below the threshold %.2f", rep.score, thr));
    }
}

//finddelay call histories in one thread: a long / loud pair first, then shorter and quieter pairs that pad to the same transform size
//(what an earlier call left in a work buffer must not decide a later answer)
static void finddelay_history(vh::Rng& r, int hidx) {
    const int k = int(r.range(8, 13));
    const int nfft = 1 << k;
    const bool cplx = r.coin();
    const int steps = int(r.range(3, 6));
    vh::begin_case("finddelay_history", "nfft=%d %s steps=%d", nfft, cplx ? "complex" : "real", steps);
    for (int st = 0; st < steps; ++st) {
        int len;
        double amp;
        if (st == 0) {
            len = nfft / 2 - int(r.range(1, 6));
            amp = std::pow(10.0, r.uni(0, 3));
        } else {
            len = std::max(128, nfft / 4 + int(r.range(2, nfft / 8)));
            amp = std::pow(10.0, r.uni(-3, 0));
        }
        const int dmax = len / 4;
        const int d = (st == 0) ? int(r.range(-5, 5)) : ((r.coin() ? 1 : -1) * int(r.range(dmax / 2, dmax)));
        int got;
        if (cplx) {
            arr_cmplx x = gauss_cmplx(r, len);
            x *= amp;
            got = dl::finddelay(x, shift(x, d));
        } else {
            arr_real x = gauss_real(r, len);
            x *= amp;
            got = dl::finddelay(x, dl::delayseq(x, d));
        }
        vh::Hasher h;
        h.s("fdhist").i(hidx).i(st);
        vh::count(h.get(), true);
        vh::obs_add("finddelay_history_calls");
        if (got != d) {
            vh::violation(vh::fmt("C18/finddelay/%s/after_other_calls", cplx ? "complex" : "real"),
                          vh::fmt("call %d of a history (transform size %d): finddelay of a %d-sample pair shifted by %d returned %d", st, nfft, len, d, got));
            return;
        }
    }
}

int main(int argc, char** argv) {
    vh::init(argc, argv, "C18");
    const bool thorough = vh::g.thorough();
    uint64_t idx = 0;
    //shortest signals: every shift in [-len/4, len/4]
    std::vector<int> exlens = {128, 129, 200};
    if (thorough) {
        exlens = {128, 129, 130, 131, 160, 200, 255, 256, 257, 400, 512, 1000};
    }
    for (int len : exlens) {
        for (int d = -len / 4; d <= len / 4; ++d) {
            if (!vh::mine(idx++)) {
                continue;
            }
            vh::Rng r = vh::rng_for("fd", uint64_t(len) * 1000 + uint64_t(d + 500));
            const int fs = int(r.pick(std::vector<int>{1, 2, 100, 8000, 44100, 48000}));
            check_finddelay(len, d, false, 1e9, fs, r);
            check_finddelay(len, d, false, r.uni(30, 60), fs, r);
            check_finddelay(len, d, true, (d % 2) ? 1e9 : r.uni(30, 60), fs, r);
        }
    }
    //longer signals: sampled shifts
    {
        const int cnt = thorough ? 6000 : 300;
        for (int t = 0; t < cnt; ++t) {
            if (!vh::mine(idx++)) {
                continue;
            }
            vh::Rng r = vh::rng_for("fdl", t);
            const int len = int(r.range(201, 5000));
            const int d = int(r.range(-len / 4, len / 4));
            const int fs = int(r.pick(std::vector<int>{1, 7, 1000, 16000, 48000}));
            check_finddelay(len, d, t % 3 == 0, (t % 2) ? 1e9 : r.uni(30, 80), fs, r);
        }
    }
    {
        const int nh = thorough ? 600 : 64;
        for (int hidx = 0; hidx < nh; ++hidx) {
            if (!vh::mine(idx++)) {
                continue;
            }
            vh::Rng r = vh::rng_for("fdhist", hidx);
            finddelay_history(r, hidx);
        }
    }
    vh::sample("finddelay/gccphat: white signals of 128, 129, 200 samples (thorough: 12 lengths to 1000), every shift in [-len/4, len/4], noiseless and with noise 30..60 dB below, real and complex; longer signals with sampled shifts");
    if (vh::mine(idx++)) {
        vh::Rng r = vh::rng_for("peakloc");
        for (int t = 0; t < (thorough ? 200000 : 5000); ++t) {
            check_peakloc(r);
        }
    }
    //preamble detector
    struct P
    {
        std::string name;
        arr_cmplx h;
    };
    std::vector<P> pre = {{"zadoff-chu(17,u=3)", zadoff_chu(17, 3)},   {"zadoff-chu(16,u=1)", zadoff_chu(16, 1)},   {"zadoff-chu(63,u=5)", zadoff_chu(63, 5)}, {"zadoff-chu(128,u=3)", zadoff_chu(128, 3)},
                          {"zadoff-chu(353,u=7)", zadoff_chu(353, 7)}, {"zadoff-chu(512,u=5)", zadoff_chu(512, 5)}, {"m-sequence(31)", m_sequence(5)},         {"m-sequence(63)", m_sequence(6)},
                          {"m-sequence(127)", m_sequence(7)},          {"m-sequence(511)", m_sequence(9)}};
    if (thorough) {
        for (auto [n, u] : std::vector<std::pair<int, int>>{{31, 2}, {64, 7}, {100, 3}, {127, 11}, {139, 25}, {199, 2}, {256, 9}, {839, 129}}) {
            pre.push_back({vh::fmt("zadoff-chu(%d,u=%d)", n, u), zadoff_chu(n, u)});
        }
        pre.push_back({"m-sequence(1023)", m_sequence(10)});
    }
    for (size_t pi = 0; pi < pre.size(); ++pi) {
        dl::PreambleDetector probe(pre[pi].h, 0.5);
        const int F = probe.frame_len();
        //every offset modulo the frame length (quick: a seeded stride)
        const int stride = thorough ? 1 : std::max(1, F / 24);
        const int ph = int(vh::rng_for("detph", pi).below(stride));
        //the seeded stride plus the frame-boundary offsets (first / last samples of a frame, around the preamble length)
        std::vector<int> offs;
        for (int off = ph; off < F; off += stride) {
            offs.push_back(off);
        }
        for (int b : {0, 1, 2, F - 3, F - 2, F - 1, F / 2, (F - int(pre[pi].h.size()) + 1 + F) % F, (F - int(pre[pi].h.size()) + F) % F}) {
            if (b >= 0 && b < F && std::find(offs.begin(), offs.end(), b) == offs.end()) {
                offs.push_back(b);
            }
        }
        for (int off : offs) {
            if (!vh::mine(idx++)) {
                continue;
            }
            vh::Rng r = vh::rng_for("det", pi * 100000 + off);
            for (int rep = 0; rep < (thorough ? 8 : 2); ++rep) {
                const double thr = r.uni(0.3, 0.9);
                const double amp = r.uni(-70, 20);
                const double noise = r.uni(30, 60);
                check_detector(pre[pi].h, pre[pi].name.c_str(), thr, off, amp, noise, true, r);
                if (off % 5 == 0) {
                    check_detector(pre[pi].h, pre[pi].name.c_str(), r.uni(0.6, 0.9), off, amp, noise, false, r);
                }
            }
        }
    }
    vh::sample("PreambleDetector: Zadoff-Chu (16..512) and m-sequences (31..511) embedded at every offset modulo the frame length (straddling frame boundaries), amplitudes over 90 dB, thresholds 0.3..0.9; the first report is compared with a long-double matched-filter statistic");
    return vh::finish();
}
