// C11 - FIR and window designs meet their closed-form specifications.
#include "dsp.h"

using namespace vd;
namespace dl = dsplib;
namespace W = dsplib::window;

//|H(w)| on a grid of npts points over [0,pi], long double
static std::vector<ld> magresp(const arr_real& h, int npts) {
    std::vector<ld> m(npts);
    const int n = h.size();
    for (int g = 0; g < npts; ++g) {
        const ld w = ref::PI_L * g / (npts - 1);
        //rotation recurrence would lose accuracy; direct evaluation (n <= ~2000)
        ld sr = 0, si = 0;
        for (int k = 0; k < n; ++k) {
            const ld a = fmodl(w * k, 2 * ref::PI_L);
            sr += h[k] * cosl(a);
            si -= h[k] * sinl(a);
        }
        m[g] = hypotl(sr, si);
    }
    return m;
}

static const char* TN[] = {"low", "high", "bandpass", "bandstop"};

static void check_fir1(int n, double w1, double w2, int type, int winkind, vh::Rng& r, bool with_masks, int grid) {
    const dl::FilterType ft[4] = {dl::FilterType::Low, dl::FilterType::High, dl::FilterType::Bandpass, dl::FilterType::Bandstop};
    const int len = n + 1 + (((n % 2) == 1 && (type == 1 || type == 3)) ? 1 : 0);
    vh::begin_case("fir1", "n=%d type=%s w=(%.6f,%.6f) window=%d", n, TN[type], w1, w2, winkind);
    arr_real h;
    arr_real win;
    bool sym_window = true;
    const std::string cfg = vh::fmt("fir1(n=%d, %s, wn=%.17g%s, window=%s)", n, TN[type], w1, type >= 2 ? vh::fmt(",%.17g", w2).c_str() : "",
                                    winkind == 0 ? "default" : (winkind == 1 ? "custom hann" : (winkind == 2 ? "custom rect" : "custom random")));
    if (winkind == 0) {
        h = (type < 2) ? dl::fir1(n, w1, ft[type]) : dl::fir1(n, w1, w2, ft[type]);
    } else {
        if (winkind == 1) {
            win = W::hann(len) + 0.01;
        } else if (winkind == 2) {
            win = dl::ones(len);
        } else {
            //an asymmetric taper (random, or a periodic hann/hamming): the statement promises a symmetric response for every call,
            //which the library keeps by mirroring the first half of the product
            const int ak = int(r.below(3));
            win = (ak == 0) ? arr_real(dl::abs(gauss_real(r, len)) + 0.1) : ((ak == 1) ? arr_real(W::hann(len, false) + 0.01) : W::hamming(len, false));
            vh::obs_add("asymmetric_custom_windows");
        }
        h = (type < 2) ? dl::fir1(n, w1, ft[type], win) : dl::fir1(n, w1, w2, ft[type], win);
        //a window of the wrong length must be rejected
        for (int d : {-1, 1}) {
            const arr_real bad = dl::ones(len + d);
            const auto oc = try_call([&] {
                if (type < 2) {
                    (void)dl::fir1(n, w1, ft[type], bad);
                } else {
                    (void)dl::fir1(n, w1, w2, ft[type], bad);
                }
            });
            vh::obs_add("wrong_window_length_cases");
            if (oc != Outcome::Threw) {
                vh::violation(vh::fmt("C11/fir1/wrong_window_accepted/%s", TN[type]), cfg + vh::fmt(": custom window of length %d (needs %d) was accepted", len + d, len));
            }
        }
    }
    vh::Hasher hh;
    hh.s("fir1").i(n).i(type).d(w1).d(w2).i(winkind);
    vh::count(hh.get(), true);
    const char* par = (n % 2 == 0) ? "even_order" : "odd_order";
    if (h.size() != len) {
        vh::violation(vh::fmt("C11/fir1/length/%s", TN[type]), cfg + vh::fmt(": %d taps, expected %d", h.size(), len));
        return;
    }
    if (!all_finite(h)) {
        vh::violation(vh::fmt("C11/fir1/nonfinite/%s", TN[type]), cfg + ": non-finite taps");
        return;
    }
    const ld mx = maxabs(h);
    ld sabs = 0;
    for (int i = 0; i < len; ++i) {
        sabs += fabsl(ld(h[i]));
    }
    if (sym_window) {
        for (int i = 0; i < len / 2; ++i) {
            const ld d = fabsl(ld(h[i]) - ld(h[len - 1 - i]));
            if (!(d <= 4 * ref::EPS * mx)) {
                vh::violation(vh::fmt("C11/fir1/asymmetric/%s/%s", TN[type], par), cfg + vh::fmt(": h[%d]=%.17g but h[%d]=%.17g (max|h|=%.3Le)", i, h[i], len - 1 - i, h[len - 1 - i], mx));
                break;
            }
        }
        vh::obs_add("symmetry_checks");
    }
    //unit gain at DC (low) / Nyquist (high)
    if (type == 0 || type == 1) {
        ld s = 0;
        for (int i = 0; i < len; ++i) {
            s += (type == 0) ? ld(h[i]) : ((i % 2) ? -ld(h[i]) : ld(h[i]));
        }
        const ld dev = fabsl(fabsl(s) - 1);
        vh::obs_max("gain_dev_over_eps_sumabs", double(dev / (ref::EPS * sabs)));
        if (!(dev <= 64 * ref::EPS * sabs)) {
            vh::violation(vh::fmt("C11/fir1/unit_gain/%s/%s", TN[type], par), cfg + vh::fmt(": |H(%s)| = %.17Lg, expected 1 (tolerance 64*eps*sum|h| = %.3Le)", type == 0 ? "0" : "pi", fabsl(s), 64 * ref::EPS * sabs));
        }
    }
    //Hamming-design masks
    if (with_masks && winkind == 0) {
        const ld bw = ld(16) / (n + 1);
        const ld tr = ld(4) / (n + 1);
        std::vector<std::pair<ld, ld>> pass, stop;
        bool wide = true;
        if (type == 0) {
            pass = {{0, w1}};
            stop = {{w1, 1}};
        } else if (type == 1) {
            stop = {{0, w1}};
            pass = {{w1, 1}};
        } else if (type == 2) {
            stop = {{0, w1}, {w2, 1}};
            pass = {{w1, w2}};
        } else {
            pass = {{0, w1}, {w2, 1}};
            stop = {{w1, w2}};
        }
        for (auto& b : pass) {
            wide = wide && (b.second - b.first > bw);
        }
        for (auto& b : stop) {
            wide = wide && (b.second - b.first > bw);
        }
        if (!wide) {
            vh::skip("fir1_band_narrower_than_16/(n+1)");
        } else {
            const auto m = magresp(h, grid);
            ld worst_pass = 0, worst_stop = 0;
            for (int g = 0; g < grid; ++g) {
                const ld f = ld(g) / (grid - 1);   //Nyquist = 1
                for (auto& b : pass) {
                    const ld lo = (b.first == 0) ? 0 : b.first + tr;
                    const ld hi = (b.second == 1) ? 1 : b.second - tr;
                    if (f >= lo && f <= hi) {
                        worst_pass = std::max(worst_pass, fabsl(m[g] - 1));
                    }
                }
                for (auto& b : stop) {
                    const ld lo = (b.first == 0) ? 0 : b.first + tr;
                    const ld hi = (b.second == 1) ? 1 : b.second - tr;
                    if (f >= lo && f <= hi) {
                        worst_stop = std::max(worst_stop, m[g]);
                    }
                }
            }
            vh::obs_max("passband_deviation", double(worst_pass));
            vh::obs_max("stopband_level", double(worst_stop));
            vh::obs_add("mask_checks");
            if (!(worst_pass <= 0.02L)) {
                vh::violation(vh::fmt("C11/fir1/mask_pass/%s/%s", TN[type], par), cfg + vh::fmt(": pass-band deviation %.4Lf > 0.02", worst_pass));
            }
            if (!(worst_stop <= 0.02L)) {
                vh::violation(vh::fmt("C11/fir1/mask_stop/%s/%s", TN[type], par), cfg + vh::fmt(": stop-band level %.4Lf > 0.02", worst_stop));
            }
        }
    }
}

//---- windows --------------------------------------------------------------------------------------------------------
static ld besseli0_l(ld x) {
    const ld q = (x / 2) * (x / 2);
    ld term = 1, s = 1;
    for (int k = 1; k < 2000; ++k) {
        term *= q / (ld(k) * k);
        s += term;
        if (term < s * 1e-21L) {
            break;
        }
    }
    return s;
}

enum WK
{
    HANN,
    HAMMING,
    BLACKMAN,
    BLACKMANHARRIS,
    GAUSS,
    COSINE,
    TUKEY,
    KAISER
};
static const char* WN[] = {"hann", "hamming", "blackman", "blackmanharris", "gauss", "cosine", "tukey", "kaiser"};

//closed form of the symmetric window of length n at index i
static ld win_ref(WK k, int n, int i, double par) {
    const ld N1 = n - 1;
    const ld c1 = cosl(2 * ref::PI_L * i / N1);
    switch (k) {
    case HANN:
        return 0.5L - 0.5L * c1;
    case HAMMING:
        return 0.54L - 0.46L * c1;
    case BLACKMAN:
        return 0.42L - 0.5L * c1 + 0.08L * cosl(4 * ref::PI_L * i / N1);
    case BLACKMANHARRIS:
        return 0.35875L - 0.48829L * c1 + 0.14128L * cosl(4 * ref::PI_L * i / N1) - 0.01168L * cosl(6 * ref::PI_L * i / N1);
    case GAUSS: {
        const ld t = (ld(i) - N1 / 2) / (N1 / 2);
        return expl(-0.5L * (ld(par) * t) * (ld(par) * t));
    }
    case COSINE:
        return sinl(ref::PI_L * (ld(i) + 0.5L) / n);
    case TUKEY: {
        const ld rr = par;
        if (rr <= 0) {
            return 1;
        }
        if (rr >= 1) {
            return 0.5L - 0.5L * c1;
        }
        const ld x = ld(i) / N1;
        if (x < rr / 2) {
            return 0.5L * (1 + cosl(2 * ref::PI_L / rr * (x - rr / 2)));
        }
        if (x > 1 - rr / 2) {
            return 0.5L * (1 + cosl(2 * ref::PI_L / rr * (x - 1 + rr / 2)));
        }
        return 1;
    }
    case KAISER: {
        const ld t = 2 * ld(i) / N1 - 1;
        ld a = 1 - t * t;
        if (a < 0) {
            a = 0;
        }
        return besseli0_l(ld(par) * sqrtl(a)) / besseli0_l(ld(par));
    }
    }
    return 0;
}

static arr_real win_call(WK k, int n, double par, bool sym) {
    switch (k) {
    case HANN:
        return W::hann(n, sym);
    case HAMMING:
        return W::hamming(n, sym);
    case BLACKMAN:
        return W::blackman(n, sym);
    case BLACKMANHARRIS:
        return W::blackmanharris(n, sym);
    case GAUSS:
        return W::gauss(n, par, sym);
    case COSINE:
        return W::cosine(n, sym);
    case TUKEY:
        return W::tukey(n, par);
    default:
        return W::kaiser(n, par);
    }
}

static const char* parclass(WK k, double par) {
    if (k == KAISER) {
        return par <= 12 ? "beta<=12" : "beta>12";
    }
    if (k == TUKEY) {
        return par <= 0 ? "r<=0" : (par >= 1 ? "r>=1" : "0<r<1");
    }
    return "-";
}

static void check_window(WK k, int n, double par) {
    vh::begin_case("window", "%s n=%d par=%.6f", WN[k], n, par);
    const bool has_periodic = (k != TUKEY && k != KAISER);
    const arr_real w = win_call(k, n, par, true);
    vh::Hasher hh;
    hh.s(WN[k]).i(n).d(par);
    vh::count(hh.get(), true);
    const std::string cfg = vh::fmt("window::%s(n=%d%s)", WN[k], n, (k == GAUSS || k == TUKEY || k == KAISER) ? vh::fmt(", %.17g", par).c_str() : "");
    if (w.size() != n) {
        vh::violation(vh::fmt("C11/window/length/%s", WN[k]), cfg + vh::fmt(": %d points", w.size()));
        return;
    }
    ld worst = 0;
    int wi = -1;
    for (int i = 0; i < n; ++i) {
        const ld want = win_ref(k, n, i, par);
        const ld e = fabsl(ld(w[i]) - want);
        if (!(e <= worst)) {
            worst = e;
            wi = i;
        }
        if (!(w[i] >= -4 * ref::EPS && w[i] <= 1 + 4 * ref::EPS)) {
            vh::violation(vh::fmt("C11/window/range/%s", WN[k]), cfg + vh::fmt(": w[%d]=%.17g outside [0,1]", i, w[i]));
            break;
        }
    }
    vh::obs_max(std::string("closed_form_err_") + WN[k], double(worst));
    if (!(worst <= 1e-12L)) {
        vh::violation(vh::fmt("C11/window/closed_form/%s/%s", WN[k], parclass(k, par)), cfg + vh::fmt(": w[%d]=%.17g, closed form %.17Lg (|diff|=%.3Le > 1e-12)", wi, w[wi], win_ref(k, n, wi, par), worst));
    }
    for (int i = 0; i < n / 2; ++i) {
        if (!(fabsl(ld(w[i]) - ld(w[n - 1 - i])) <= 4 * ref::EPS)) {
            vh::violation(vh::fmt("C11/window/asymmetric/%s", WN[k]), cfg + vh::fmt(": w[%d]=%.17g, w[%d]=%.17g", i, w[i], n - 1 - i, w[n - 1 - i]));
            break;
        }
    }
    if (has_periodic) {
        const arr_real p = win_call(k, n, par, false);
        const arr_real s1 = win_call(k, n + 1, par, true);
        bool ok = p.size() == n;
        for (int i = 0; ok && i < n; ++i) {
            ok = fabsl(ld(p[i]) - ld(s1[i])) <= 4 * ref::EPS;
        }
        vh::obs_add("periodic_checks");
        if (!ok) {
            vh::violation(vh::fmt("C11/window/periodic/%s", WN[k]), cfg + ": periodic variant differs from the first n points of the symmetric window of length n+1");
        }
    }
}

int main(int argc, char** argv) {
    vh::init(argc, argv, "C11");
    const bool thorough = vh::g.thorough();
    uint64_t idx = 0;
    const int grid = thorough ? 4096 : 1024;

    //---- fir1
    std::vector<int> orders;
    for (int n = 2; n <= 256; ++n) {
        orders.push_back(n);
    }
    {
        vh::Rng r = vh::rng_for("orders");
        const int extra = thorough ? 40 : 8;
        for (int i = 0; i < extra; ++i) {
            orders.push_back(int(r.range(257, 2000)));
        }
    }
    for (int n : orders) {
        if (!vh::mine(idx++)) {
            continue;
        }
        vh::Rng r = vh::rng_for("fir1", n);
        //cut-off grid of (0.02,0.98) + random
        std::vector<double> cuts = {0.02, 0.1, 0.25, 0.5, 0.75, 0.9, 0.98};
        const int nr = thorough ? 6 : 2;
        for (int i = 0; i < nr; ++i) {
            cuts.push_back(r.uni(0.02, 0.98));
        }
        const bool masks_here = (n <= 256) ? (thorough || n % 4 == int(r.below(4))) : true;
        for (double c : cuts) {
            for (int type = 0; type < 2; ++type) {
                check_fir1(n, c, 0, type, 0, r, masks_here, grid);
            }
            const double c2 = c + r.uni(0.05, 0.9) * (0.98 - c);
            if (c2 > c + 0.01) {
                for (int type = 2; type < 4; ++type) {
                    check_fir1(n, c, c2, type, 0, r, masks_here, grid);
                }
            }
        }
        //custom windows (length rule, symmetry, unit gain, wrong length rejected)
        for (int wk = 1; wk <= 3; ++wk) {
            const double c = r.uni(0.05, 0.6);
            for (int type = 0; type < 4; ++type) {
                check_fir1(n, c, c + r.uni(0.05, 0.35), type, wk, r, false, grid);
            }
        }
        vh::obs_add("fir1_orders_checked");
    }
    //---- design histories: the same (order, cut-off) designed one after another with different windows, and the same window with
    //different cut-offs; every design must equal, bit for bit, the same call made first thing in a fresh thread (a memo keyed by only
    //part of the arguments shows here)
    {
        const dl::FilterType ftl[4] = {dl::FilterType::Low, dl::FilterType::High, dl::FilterType::Bandpass, dl::FilterType::Bandstop};
        const int nh = thorough ? 400 : 60;
        for (int hidx = 0; hidx < nh; ++hidx) {
            if (!vh::mine(idx++)) {
                continue;
            }
            vh::Rng r = vh::rng_for("fir1hist", hidx);
            const int n = 2 * int(r.range(2, 60));   //even order: same length for every type
            const double w1 = r.uni(0.1, 0.5);
            const double w2 = w1 + r.uni(0.1, 0.4);
            const int len = n + 1;
            std::vector<arr_real> wins = {dl::ones(len), W::hann(len) + 0.01, W::hamming(len), W::blackman(len) + 0.001, dl::abs(gauss_real(r, len)) + 0.1, W::kaiser(len, 5.0)};
            vh::begin_case("fir1_history", "n=%d w=(%.6f,%.6f)", n, w1, w2);
            const int steps = int(r.range(6, 14));
            for (int st = 0; st < steps; ++st) {
                const int type = int(r.below(4));
                const int wk = int(r.below(uint64_t(wins.size()) + 1));   //== wins.size(): default window
                const double c1 = (r.below(3) == 0) ? r.uni(0.1, 0.5) : w1;
                auto call = [&]() -> std::vector<double> {
                    arr_real h;
                    if (wk == int(wins.size())) {
                        h = (type < 2) ? dl::fir1(n, c1, ftl[type]) : dl::fir1(n, c1, w2, ftl[type]);
                    } else {
                        h = (type < 2) ? dl::fir1(n, c1, ftl[type], wins[wk]) : dl::fir1(n, c1, w2, ftl[type], wins[wk]);
                    }
                    return h.to_vec();
                };
                vh::Hasher hh;
                hh.s("fir1hist").i(hidx).i(st);
                vh::count(hh.get(), true);
                vh::obs_add("fir1_history_designs");
                if (!same_as_in_fresh_thread(call)) {
                    vh::violation(vh::fmt("C11/fir1/depends_on_earlier_designs/%s", TN[type]),
                                  vh::fmt("fir1(n=%d, %s, wn=%.17g%s, window %d of 7) designed after other windows / cut-offs of the same order differs from the same call in a fresh thread", n, TN[type], c1,
                                          type >= 2 ? vh::fmt(",%.17g", w2).c_str() : "", wk));
                    break;
                }
            }
        }
    }
    vh::sample("fir1: every order 2..256 x cut-offs {0.02,0.1,0.25,0.5,0.75,0.9,0.98,random} x {low,high,bandpass,bandstop}; |H| on a long-double grid vs the masks when all bands are wider than 16/(n+1)");

    //---- windows
    std::vector<int> lens;
    for (int n = 3; n <= 512; ++n) {
        lens.push_back(n);
    }
    {
        vh::Rng r = vh::rng_for("winlens");
        const int extra = thorough ? 30 : 6;
        for (int i = 0; i < extra; ++i) {
            lens.push_back(int(std::exp(r.uni(std::log(513.0), std::log(1e5)))));
        }
    }
    //lengths at integer thresholds (n^2 and (n-1)^2 around 2^31 and 2^32) and the largest sampled length
    for (int n : {32767, 32768, 46340, 46341, 46342, 65535, 65536, 65537, 65538, 100000}) {
        lens.push_back(n);
    }
    for (int n : lens) {
        if (!vh::mine(idx++)) {
            continue;
        }
        vh::Rng r = vh::rng_for("win", n);
        check_window(HANN, n, 0);
        check_window(HAMMING, n, 0);
        check_window(BLACKMAN, n, 0);
        check_window(BLACKMANHARRIS, n, 0);
        check_window(COSINE, n, 0);
        const int np = (n <= 512) ? (thorough ? 6 : 3) : 2;
        for (int i = 0; i < np; ++i) {
            check_window(GAUSS, n, r.uni(0.5, 6.0));
            check_window(TUKEY, n, r.uni(-0.5, 1.5));
            check_window(KAISER, n, r.uni(0.0, 40.0));
        }
        check_window(GAUSS, n, 2.5);
        check_window(TUKEY, n, 0.5);
        check_window(TUKEY, n, 0.0);
        check_window(TUKEY, n, 1.0);
        check_window(KAISER, n, 0.0);
        check_window(KAISER, n, 0.5);
        check_window(KAISER, n, 40.0);
        vh::obs_add("window_lengths_checked");
    }
    vh::sample("windows: every length 3..512 x {hann,hamming,blackman,blackmanharris,cosine,gauss(alpha in [0.5,6]),tukey(r in [-0.5,1.5]),kaiser(beta in [0,40])}, symmetric and periodic");
    vh::g.exhaustive = true;
    return vh::finish();
}
