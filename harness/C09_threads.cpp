// C09 - concurrent use from several threads is race-free and result-preserving.
// Built twice: with -fsanitize=thread (happens-before race detection; reports are scraped by the driver) and plain
// (same workload, many more iterations, as a corruption monitor). Every result is compared with a sequential
// reference computed before the threads start.
#include "dsp.h"
#include "verif-hooks.h"

#include <atomic>
#include <condition_variable>
#include <memory>
#include <mutex>
#include <sstream>
#include <thread>

using namespace vd;
namespace dl = dsplib;

struct Barrier
{
    std::mutex m;
    std::condition_variable cv;
    int waiting{0};
    int total;
    int gen{0};
    explicit Barrier(int n)
      : total{n} {
    }
    void wait() {
        std::unique_lock<std::mutex> lk(m);
        const int g = gen;
        if (++waiting == total) {
            waiting = 0;
            ++gen;
            cv.notify_all();
        } else {
            cv.wait(lk, [&] { return g != gen; });
        }
    }
};

static bool close_c(const arr_cmplx& a, const arr_cmplx& b) {
    if (a.size() != b.size()) {
        return false;
    }
    const ld n = norm2(b);
    return diff2(a, b) <= 1e-12L * (n + 1e-300L);
}
static bool close_r(const arr_real& a, const arr_real& b) {
    if (a.size() != b.size()) {
        return false;
    }
    const ld n = norm2(b);
    return diff2(a, b) <= 1e-12L * (n + 1e-300L);
}

//---- a unit of work with a precomputed sequential result ---------------------------------------------------------
struct Job
{
    std::string name;
    std::string kind;                       //shared plan kind or "private"
    std::function<bool()> run_and_check;    //executes the call and compares with the stored reference
    std::shared_ptr<std::atomic<int>> inflight;   //only for shared objects
};

struct Shared
{
    std::vector<Job> jobs;
};

template<class Plan, class In, class Out, class Cmp>
static Job shared_job(const std::string& name, const std::string& kind, std::shared_ptr<Plan> plan, In in, Cmp cmp) {
    const Out expected = plan->solve(in);   //sequential reference
    Job j;
    j.name = name;
    j.kind = kind;
    j.inflight = std::make_shared<std::atomic<int>>(0);
    //tiny transforms are repeated inside one invocation so that calls on them overlap as often as on the big ones
    const int reps = std::max(1, 512 / std::max(1, int(in.size())));
    j.run_and_check = [plan, in, expected, cmp, reps] {
        bool ok = true;
        for (int k = 0; k < reps; ++k) {
            const Out got = plan->solve(in);
            ok = ok && cmp(got, expected);
        }
        return ok;
    };
    return j;
}

//---- cold-start phase: free functions and distinct objects used concurrently BEFORE any sequential reference exists ---------
// Lazily built process-wide state (tables grown on first use, memoised designs) is only racy the first time it is needed, so this
// phase runs first in the process, in steps of growing argument magnitude; every thread's results are compared afterwards with the
// same calls made sequentially.
using Flat = std::vector<double>;
static Flat flat(const arr_real& a) {
    return a.to_vec();
}
static Flat flat(const arr_cmplx& a) {
    Flat f;
    for (int i = 0; i < a.size(); ++i) {
        f.push_back(a[i].re);
        f.push_back(a[i].im);
    }
    return f;
}

struct ZooCall
{
    std::string name;
    std::function<Flat()> fn;
};

static std::vector<ZooCall> make_zoo(int step) {
    std::vector<ZooCall> z;
    static const std::vector<std::vector<uint32_t>> mags = {
      {65537u, 66049u, 67591u, 69169u, 63001u, 70001u},
      {1000003u, 1018081u, 999983u, 1022117u, 1000001u},
      {100000007u, 100140049u, 99999989u, 100160063u, 100000001u},
      {2147483647u, 2147117569u, 4294967291u, 4293001441u, 4294967295u, 3215031751u},
    };
    const auto& ns = mags[size_t(step) % mags.size()];
    for (uint32_t n : ns) {
        z.push_back({vh::fmt("isprime(%u)", n), [n] { return Flat{double(dl::isprime(n))}; }});
        z.push_back({vh::fmt("factor(%u)", n), [n] {
                         Flat f;
                         for (auto p : dl::factor(n)) {
                             f.push_back(double(p));
                         }
                         return f;
                     }});
        if (n <= 4294967291u) {
            z.push_back({vh::fmt("nextprime(%u)", n), [n] { return Flat{double(dl::nextprime(n))}; }});
        }
    }
    const int pn = 5000 * (step + 1) + 17;
    z.push_back({vh::fmt("primes(%d)", pn), [pn] {
                     Flat f;
                     for (auto p : dl::primes(uint32_t(pn))) {
                         f.push_back(double(p));
                     }
                     return f;
                 }});
    //transforms whose plans need new factorizations (prime-square and large-prime lengths)
    const int fn_[4] = {66049 / 257 * 263, 1009 * 3, 10007, 257 * 257};
    const int fl = fn_[step % 4];
    z.push_back({vh::fmt("fft(len %d)", fl), [fl] {
                     vh::Rng r{uint64_t(fl)};
                     return flat(dl::fft(gauss_cmplx(r, fl)));
                 }});
    z.push_back({vh::fmt("rfft(len %d)", fl + 1), [fl] {
                     vh::Rng r{uint64_t(fl) + 5};
                     return flat(dl::rfft(gauss_real(r, fl + 1)));
                 }});
    //design / analysis functions and distinct processor objects
    const int k = step;
    z.push_back({"kaiser", [k] { return flat(dl::window::kaiser(101 + k, 7.5 + k)); }});
    z.push_back({"windows", [k] { return flat(dl::window::hann(64 + k) | dl::window::blackmanharris(33 + k) | dl::window::tukey(40 + k, 0.3) | dl::window::gauss(50, 2.5)); }});
    z.push_back({"fir1", [k] { return flat(dl::fir1(40 + 2 * k, 0.3)); }});
    z.push_back({"fir1_bandpass", [k] { return flat(dl::fir1(32 + 2 * k, 0.2, 0.6, dl::FilterType::Bandpass)); }});
    z.push_back({"design_multirate_fir", [k] { return flat(dl::design_multirate_fir(3 + k, 2)); }});
    z.push_back({"resample", [k] {
                     vh::Rng r(11 + k);
                     return flat(dl::resample(gauss_real(r, 300), 3 + k, 2));
                 }});
    z.push_back({"welch", [k] {
                     vh::Rng r(12 + k);
                     return flat(dl::welch(gauss_real(r, 1000), 64).pxx);
                 }});
    z.push_back({"xcorr", [k] {
                     vh::Rng r(13 + k);
                     return flat(dl::xcorr(gauss_real(r, 100 + k), gauss_real(r, 37)));
                 }});
    z.push_back({"hilbert", [k] {
                     vh::Rng r(14 + k);
                     return flat(dl::hilbert(gauss_real(r, 200 + k)));
                 }});
    z.push_back({"medfilt_sort_median", [k] {
                     vh::Rng r(15 + k);
                     arr_real x = gauss_real(r, 101 + k);
                     Flat f = flat(dl::medfilt(x, 5));
                     f.push_back(dl::median(x));
                     const auto sp = dl::sort(x);
                     for (int i = 0; i < sp.first.size(); ++i) {
                         f.push_back(sp.first[i]);
                         f.push_back(double(sp.second[i]));
                     }
                     return f;
                 }});
    z.push_back({"corr_kendall", [k] {
                     vh::Rng r(16 + k);
                     return Flat{dl::corr(gauss_real(r, 60), gauss_real(r, 60), dl::Correlation::Kendall)};
                 }});
    z.push_back({"finddelay", [k] {
                     vh::Rng r(17 + k);
                     const arr_real x = gauss_real(r, 256);
                     return Flat{double(dl::finddelay(x, dl::delayseq(x, 7 + k)))};
                 }});
    z.push_back({"FirFilter+FftFilter objects", [k] {
                     vh::Rng r(18 + k);
                     const arr_real h = gauss_real(r, 21);
                     const arr_real x = gauss_real(r, 400);
                     dl::FirFilterR f(h);
                     dl::FftFilter g(h);
                     return flat(f.process(x) | g.process(x));
                 }});
    z.push_back({"HilbertFilter+Tuner+Agc objects", [k] {
                     vh::Rng r(19 + k);
                     const arr_real x = gauss_real(r, 500);
                     dl::HilbertFilter hf(51, 0.05);
                     dl::Tuner tn(8000, 1234.5);
                     dl::Agc agc;
                     return flat(tn.process(hf.process(x)) | dl::complex(agc.process(x).out));
                 }});
    z.push_back({"resampler objects", [k] {
                     vh::Rng r(20 + k);
                     dl::FIRRateConverter rc(3 + k, 2);
                     dl::FIRDecimator dc(3);
                     dl::FIRInterpolator ip(2 + k);
                     const arr_real x = gauss_real(r, 240);
                     return flat(rc.process(x) | dc.process(x) | ip.process(x));
                 }});
    z.push_back({"stream output of real/complex arrays and scalars", [k] {
                     vh::Rng r(21 + k);
                     const arr_cmplx zc = gauss_cmplx(r, 6);
                     const arr_real zr = gauss_real(r, 5);
                     std::ostringstream os;
                     os << zc << zr << zc[0] << cmplx_t{1.5 + k, -2.25};
                     Flat f;
                     for (char ch : os.str()) {
                         f.push_back(double(static_cast<unsigned char>(ch)));
                     }
                     return f;
                 }});
    z.push_back({"thd_sinad", [k] {
                     arr_real x(4096);
                     for (int i = 0; i < 4096; ++i) {
                         x[i] = std::sin(2 * 3.14159265358979 * (200.0 + k) * i / 4096) + 0.01 * std::sin(2 * 3.14159265358979 * 2 * (200.0 + k) * i / 4096);
                     }
                     return Flat{dl::thd(x).value, dl::sinad(x)};
                 }});
    return z;
}

struct ColdOutcome
{
    uint64_t calls{0};
    uint64_t mismatches{0};
    uint64_t exceptions{0};
    std::string first;
};

static ColdOutcome cold_phase(int T, int steps, uint64_t seed) {
    ColdOutcome out;
    for (int step = 0; step < steps; ++step) {
        const std::vector<ZooCall> zoo = make_zoo(step);
        std::vector<std::vector<Flat>> got(T, std::vector<Flat>(zoo.size()));
        std::vector<std::vector<int>> threw(T, std::vector<int>(zoo.size(), 0));
        Barrier bar(T);
        std::vector<std::thread> th;
        for (int t = 0; t < T; ++t) {
            th.emplace_back([&, t] {
                vh::Rng tr(seed + 1000003ULL * uint64_t(step) + uint64_t(t));
                //every thread runs every call, in its own random order
                std::vector<int> order(zoo.size());
                for (size_t i = 0; i < order.size(); ++i) {
                    order[i] = int(i);
                }
                for (size_t i = order.size(); i > 1; --i) {
                    std::swap(order[i - 1], order[tr.below(i)]);
                }
                bar.wait();
                for (int i : order) {
                    try {
                        got[t][i] = zoo[i].fn();
                    } catch (const std::exception&) {
                        threw[t][i] = 1;
                    }
                }
            });
        }
        for (auto& t : th) {
            t.join();
        }
        //sequential references, computed only now
        for (size_t i = 0; i < zoo.size(); ++i) {
            Flat want;
            bool want_threw = false;
            try {
                want = zoo[i].fn();
            } catch (const std::exception&) {
                want_threw = true;
            }
            for (int t = 0; t < T; ++t) {
                ++out.calls;
                if (threw[t][i] != int(want_threw)) {
                    ++out.exceptions;
                    if (out.first.empty()) {
                        out.first = vh::fmt("step %d: %s %s in a thread but %s sequentially", step, zoo[i].name.c_str(), threw[t][i] ? "threw" : "returned", want_threw ? "threw" : "returned");
                    }
                    continue;
                }
                bool same = got[t][i].size() == want.size();
                for (size_t k = 0; same && k < want.size(); ++k) {
                    same = std::memcmp(&got[t][i][k], &want[k], sizeof(double)) == 0;
                }
                if (!same) {
                    ++out.mismatches;
                    if (out.first.empty()) {
                        out.first = vh::fmt("step %d: %s returned a different result when %d threads made their first calls at once than sequentially afterwards", step, zoo[i].name.c_str(), T);
                    }
                }
            }
        }
    }
    return out;
}

static bool is_pow2(int n) {
    return (n & (n - 1)) == 0;
}

static std::vector<Job> make_shared_jobs(vh::Rng& r) {
    std::vector<Job> J;
    //complex plans of every kind
    struct K
    {
        int n;
        const char* kind;
    };
    const std::vector<K> ck = {{4, "small"},          {8, "small"},         {64, "radix2"},        {1024, "radix2"},     {15, "factor(prime leaves)"}, {360, "factor(pow2|odd)"},
                               {1001, "factor(7|11|13)"}, {17, "prime_direct"}, {41, "prime_direct"}, {97, "prime_bluestein"}, {3, "dft3"},                    {194, "factor(2|bluestein)"}};
    for (const auto& k : ck) {
        auto p = std::make_shared<dl::FftPlan>(k.n);
        J.push_back(shared_job<dl::FftPlan, arr_cmplx, arr_cmplx>(vh::fmt("FftPlan(%d)", k.n), std::string("FftPlan/") + k.kind, p, gauss_cmplx(r, k.n), close_c));
    }
    const std::vector<K> rk = {{8, "small"}, {64, "even_packed(radix2)"}, {30, "even_packed(factor)"}, {45, "odd_composite"}, {31, "prime"}, {202, "even_packed(bluestein)"}, {720, "even_packed(factor)"}};
    for (const auto& k : rk) {
        auto p = std::make_shared<dl::FftPlanR>(k.n);
        J.push_back(shared_job<dl::FftPlanR, arr_real, arr_cmplx>(vh::fmt("FftPlanR(%d)", k.n), std::string("FftPlanR/") + k.kind, p, gauss_real(r, k.n), close_c));
    }
    for (int n : {16, 360, 97, 45}) {
        auto p = std::make_shared<dl::IfftPlan>(n);
        J.push_back(shared_job<dl::IfftPlan, arr_cmplx, arr_cmplx>(vh::fmt("IfftPlan(%d)", n), std::string("IfftPlan/") + (is_pow2(n) ? "radix2" : "other"), p, gauss_cmplx(r, n), close_c));
    }
    for (int n : {64, 90, 194}) {
        auto p = std::make_shared<dl::IfftPlanR>(n);
        J.push_back(shared_job<dl::IfftPlanR, arr_cmplx, arr_real>(vh::fmt("IfftPlanR(%d)", n), "IfftPlanR", p, dl::fft(gauss_real(r, n)), close_r));
    }
    {
        auto p = std::make_shared<dl::CztPlan>(50, 70, dl::expj(-0.21), cmplx_t{0.9, 0.2});
        J.push_back(shared_job<dl::CztPlan, arr_cmplx, arr_cmplx>("CztPlan(50,70)", "CztPlan", p, gauss_cmplx(r, 50), close_c));
        auto p2 = std::make_shared<dl::CztPlan>(128, 128, dl::expj(-2 * 3.14159265358979 / 128));
        J.push_back(shared_job<dl::CztPlan, arr_cmplx, arr_cmplx>("CztPlan(128,128)", "CztPlan", p2, gauss_cmplx(r, 128), close_c));
    }
    return J;
}

//private work (free functions and own objects); references computed sequentially
static std::vector<Job> make_private_jobs(vh::Rng& r) {
    std::vector<Job> J;
    auto add = [&](const std::string& name, std::function<bool()> f) {
        Job j;
        j.name = name;
        j.kind = "private";
        j.run_and_check = std::move(f);
        J.push_back(j);
    };
    //lengths chosen to hit and evict the per-thread plan caches and to share prime sub-plans
    for (int n : {16, 256, 2048, 12, 15, 45, 60, 360, 1000, 17, 97, 101, 194, 6, 3}) {
        const arr_cmplx x = gauss_cmplx(r, n);
        const arr_cmplx X = dl::fft(x);
        add(vh::fmt("fft_c(%d)", n), [x, X] { return close_c(dl::fft(x), X); });
        const arr_cmplx xi = dl::ifft(X);
        add(vh::fmt("ifft(%d)", n), [X, xi] { return close_c(dl::ifft(X), xi); });
        const arr_real xr = gauss_real(r, n);
        const arr_cmplx XR = dl::rfft(xr);
        add(vh::fmt("rfft(%d)", n), [xr, XR] { return close_c(dl::rfft(xr), XR); });
        if (n % 2 == 0) {
            const arr_real back = dl::irfft(XR, n);
            add(vh::fmt("irfft(%d)", n), [XR, n, back] { return close_r(dl::irfft(XR, n), back); });
        }
    }
    {
        const arr_real a = gauss_real(r, 100), b = gauss_real(r, 37);
        const arr_real z = dl::xcorr(a, b);
        add("xcorr(100,37)", [a, b, z] { return close_r(dl::xcorr(a, b), z); });
    }
    {
        const arr_real h = gauss_real(r, 33);
        const arr_real x = gauss_real(r, 500);
        dl::FftFilter f0(h);
        const arr_real y = f0.process(x);
        add("FftFilter(33) own instance", [h, x, y] {
            dl::FftFilter f(h);
            return close_r(f.process(x), y);
        });
        dl::FirFilterR g0(h);
        const arr_real y2 = g0.process(x);
        add("FirFilter(33) own instance", [h, x, y2] {
            dl::FirFilterR f(h);
            return close_r(f.process(x), y2);
        });
    }
    {
        const arr_real x = gauss_real(r, 2000);
        const arr_real p = dl::welch(x, 128, 64, 256).pxx;
        add("welch(2000,128,64,256)", [x, p] { return close_r(dl::welch(x, 128, 64, 256).pxx, p); });
        const arr_real y = dl::resample(x, 3, 2);
        add("resample(2000,3,2)", [x, y] { return close_r(dl::resample(x, 3, 2), y); });
        const arr_real y2 = dl::resample(x, 1, 4);
        add("resample(2000,1,4)", [x, y2] { return close_r(dl::resample(x, 1, 4), y2); });
        const arr_cmplx hz = dl::hilbert(x);
        add("hilbert(2000)", [x, hz] { return close_c(dl::hilbert(x), hz); });
    }
    {
        const arr_real k = dl::window::kaiser(65, 7.5);
        add("kaiser(65,7.5)", [k] { return close_r(dl::window::kaiser(65, 7.5), k); });
        const arr_real f = dl::fir1(40, 0.3);
        add("fir1(40,0.3)", [f] { return close_r(dl::fir1(40, 0.3), f); });
    }
    return J;
}

//script of random generator calls; returns the observed values
static std::vector<double> rng_script(int seed) {
    std::vector<double> v;
    dl::rng(seed);
    const arr_real a = dl::randn(5);
    for (int i = 0; i < a.size(); ++i) {
        v.push_back(a[i]);
    }
    v.push_back(dl::rand());
    v.push_back(double(dl::randi({1, 1000})));
    v.push_back(dl::randn());
    const arr_real b = dl::rand(3);
    for (int i = 0; i < b.size(); ++i) {
        v.push_back(b[i]);
    }
    const arr_real c = dl::awgn(dl::ones(4), 10.0);
    for (int i = 0; i < c.size(); ++i) {
        v.push_back(c[i]);
    }
    const dl::arr_int d = dl::randi(50, 4);
    for (int i = 0; i < d.size(); ++i) {
        v.push_back(d[i]);
    }
    v.push_back(dl::randn());
    return v;
}

//draws of a thread that never seeds: must be the default-engine sequence, whatever other threads seed meanwhile
static std::vector<double> unseeded_script() {
    std::vector<double> v;
    const arr_real a = dl::randn(5);
    for (int i = 0; i < a.size(); ++i) {
        v.push_back(a[i]);
    }
    v.push_back(dl::rand());
    v.push_back(double(dl::randi({1, 1000})));
    v.push_back(dl::randn());
    return v;
}

struct ThreadResult
{
    uint64_t calls{0};
    uint64_t mismatches{0};
    uint64_t overlaps{0};
    uint64_t rng_mismatch{0};
    uint64_t exceptions{0};
    std::string first;
    std::map<std::string, uint64_t> overlaps_by_kind;
    std::map<std::string, uint64_t> calls_by_kind;
};

int main(int argc, char** argv) {
    vh::init(argc, argv, "C09");
    const bool thorough = vh::g.thorough();
    const double scale = atof(vh::opt("scale", "1").c_str());
    //rounds are independent: shard by round number
    const int rounds = int((thorough ? 400 : 32) * (vh::opt("rounds_scale", "1") == "1" ? 1.0 : atof(vh::opt("rounds_scale").c_str())));
    const int iters = int((thorough ? 1500 : 1000) * scale);
    std::map<std::string, uint64_t> overlaps_by_kind;
    std::map<std::string, uint64_t> calls_by_kind;
    //cold start first: nothing of the library has run in this process yet
    {
        const int T = 4 + (vh::g.shard % 3) * 4;   //4, 8 or 12 threads depending on the shard
        vh::begin_case("cold_start", "threads=%d steps=4", T);
        const ColdOutcome co = cold_phase(T, 4, vh::g.seed * 7919ULL + uint64_t(vh::g.shard));
        vh::Hasher hc;
        hc.s("cold").i(vh::g.shard).i(T);
        vh::count(hc.get(), true);
        vh::obs_add("cold_start_calls_compared", double(co.calls));
        if (co.mismatches || co.exceptions) {
            vh::violation("C09/cold_start/result", vh::fmt("%llu of %llu first-use calls differ from the sequential result (%llu exception mismatches); first: %s", (unsigned long long)co.mismatches,
                                                           (unsigned long long)co.calls, (unsigned long long)co.exceptions, co.first.c_str()));
        }
    }
    //reference for never-seeding threads: first draws of a fresh thread in a process where nobody has seeded yet
    std::vector<double> default_seq;
    {
        std::thread t([&] { default_seq = unseeded_script(); });
        t.join();
    }

    for (int round = 0; round < rounds; ++round) {
        if (!vh::mine(round)) {
            continue;
        }
        vh::Rng r = vh::rng_for("round", round);
        const int T = int(r.range(2, 16));
        const bool yield_on = (round % 2) == 1;
        dl::verif::yield_enabled().store(yield_on);
        vh::begin_case("round", "round=%d threads=%d yield=%d", round, T, int(yield_on));

        auto shared = std::make_shared<std::vector<Job>>(make_shared_jobs(r));
        auto priv = std::make_shared<std::vector<Job>>(make_private_jobs(r));
        //a plan created in this (main) thread keeps using its sub-plans through the main thread's cache while others use it
        std::vector<std::vector<double>> rng_expected(T);
        std::vector<int> rng_seed(T);
        for (int t = 0; t < T; ++t) {
            rng_seed[t] = int(r.range(0, 1000));
            rng_expected[t] = rng_script(rng_seed[t]);
        }
        std::vector<ThreadResult> res(T);
        std::atomic<int> seeded_by_someone{0};
        Barrier bar(T + 1);
        std::vector<std::thread> th;
        const uint64_t rseed = r.next();
        for (int t = 0; t < T; ++t) {
            th.emplace_back([&, t] {
                vh::Rng tr(rseed + 7919ULL * uint64_t(t));
                ThreadResult& out = res[t];
                const bool never_seeds = (T >= 3) && (t % 4 == 3);
                bar.wait();
                if (t == 0) {
                    //make sure a seed other than the default has been set somewhere before the never-seeding threads draw
                    (void)rng_script(rng_seed[t] + 1);
                    seeded_by_someone.store(1, std::memory_order_release);
                }
                if (never_seeds) {
                    while (seeded_by_someone.load(std::memory_order_acquire) == 0) {
                        std::this_thread::yield();
                    }
                    const auto got = unseeded_script();
                    ++out.calls;
                    ++out.calls_by_kind["unseeded_first_draws"];
                    if (got != default_seq) {
                        ++out.rng_mismatch;
                        if (out.first.empty()) {
                            out.first = "a thread that never called rng() did not observe the default generator sequence after another thread had seeded";
                        }
                    }
                }
                for (int it = 0; it < iters; ++it) {
                    uint64_t sel = tr.below(100);
                    if (never_seeds && sel >= 92) {
                        sel = sel % 92;   //this thread never touches the generator again
                    }
                    try {
                        if (sel < 60) {
                            //shared plan object, concurrently with others
                            Job& j = (*shared)[tr.below(shared->size())];
                            const int prev = j.inflight->fetch_add(1, std::memory_order_relaxed);
                            if (prev > 0) {
                                ++out.overlaps;
                                ++out.overlaps_by_kind[j.kind];
                            }
                            const bool ok = j.run_and_check();
                            j.inflight->fetch_sub(1, std::memory_order_relaxed);
                            ++out.calls;
                            ++out.calls_by_kind[j.kind];
                            if (!ok) {
                                ++out.mismatches;
                                if (out.first.empty()) {
                                    out.first = j.name + " shared between threads returned a result different from the sequential one";
                                }
                            }
                        } else if (sel < 92) {
                            Job& j = (*priv)[tr.below(priv->size())];
                            const bool ok = j.run_and_check();
                            ++out.calls;
                            ++out.calls_by_kind["private"];
                            if (!ok) {
                                ++out.mismatches;
                                if (out.first.empty()) {
                                    out.first = j.name + " (thread-private call) returned a result different from the sequential one";
                                }
                            }
                        } else if (sel < 96) {
                            //replay the generator script: must equal the single-threaded values
                            const auto got = rng_script(rng_seed[t]);
                            ++out.calls;
                            ++out.calls_by_kind["rng_script"];
                            if (got != rng_expected[t]) {
                                ++out.rng_mismatch;
                                if (out.first.empty()) {
                                    out.first = vh::fmt("rng(%d) script observed other values than single-threaded while other threads seed/draw", rng_seed[t]);
                                }
                            }
                        } else {
                            //disturb: seed and draw with other seeds
                            dl::rng(int(tr.below(100000)));
                            (void)dl::randn(int(tr.range(1, 50)));
                            (void)dl::rand();
                            ++out.calls;
                        }
                    } catch (const std::exception& e) {
                        ++out.exceptions;
                        if (out.first.empty()) {
                            out.first = std::string("unexpected exception in a worker thread: ") + e.what();
                        }
                    }
                }
            });
        }
        bar.wait();
        //the creating thread keeps transforming (its cache holds the sub-plans the shared plans were built from)
        for (int it = 0; it < iters / 4; ++it) {
            Job& j = (*priv)[r.below(priv->size())];
            if (!j.run_and_check()) {
                vh::violation("C09/result/private_in_creator_thread", j.name + " in the plan-creating thread differs from the sequential result");
            }
        }
        for (auto& t : th) {
            t.join();
        }
        dl::verif::yield_enabled().store(false);
        uint64_t calls = 0, mism = 0, ovl = 0, rngm = 0, exc = 0;
        std::string first;
        for (auto& tr : res) {
            calls += tr.calls;
            mism += tr.mismatches;
            ovl += tr.overlaps;
            rngm += tr.rng_mismatch;
            exc += tr.exceptions;
            if (first.empty()) {
                first = tr.first;
            }
            for (auto& kv : tr.overlaps_by_kind) {
                overlaps_by_kind[kv.first] += kv.second;
            }
            for (auto& kv : tr.calls_by_kind) {
                calls_by_kind[kv.first] += kv.second;
            }
        }
        vh::Hasher h;
        h.s("round").i(round).i(T).u64(rseed);
        vh::count(h.get(), ovl > 0);
        vh::obs_add("thread_calls", double(calls));
        vh::obs_add("overlapping_calls_on_shared_plans", double(ovl));
        vh::obs_add("threads_started", T);
        vh::obs_max("threads_in_one_round", T);
        const std::string ctx = vh::fmt("round %d, %d threads, yield hook %s: ", round, T, yield_on ? "on" : "off");
        if (mism > 0) {
            //key by the first object that failed
            const std::string obj = first.substr(0, first.find(' '));
            vh::violation(vh::fmt("C09/result/%s", obj.substr(0, obj.find('(')).c_str()), ctx + vh::fmt("%llu of %llu calls returned wrong results; first: ", (unsigned long long)mism, (unsigned long long)calls) + first);
        }
        if (rngm > 0) {
            vh::violation("C09/rng_isolation", ctx + first);
        }
        if (exc > 0) {
            vh::violation("C09/exception_in_thread", ctx + first);
        }
        if (round < 2) {
            vh::sample(ctx + vh::fmt("%llu calls, %llu of them started while another call was inside solve() on the same shared plan", (unsigned long long)calls, (unsigned long long)ovl));
        }
    }
    for (auto& kv : overlaps_by_kind) {
        vh::obs_add("overlaps[" + kv.first + "]", double(kv.second));
    }
    for (auto& kv : calls_by_kind) {
        vh::obs_add("calls[" + kv.first + "]", double(kv.second));
    }
    return vh::finish();
}
