// vh.h - common runtime of the monitor programs (one shard of one check run).
//
//  * deterministic PRNG seeded from (VERIF_SEED, property, stream)
//  * case bookkeeping: evaluations, distinct non-trivial case hashes, observation counters, samples
//  * verdict reporting: violation(key, witness) / inconclusive(reason); the python driver (bin/vcheck)
//    merges shards, matches keys against known_findings.json and decides the exit status
//  * a shared "current case" page so that the driver can attribute a crash / hang to a case
#pragma once

#include <cinttypes>
#include <cmath>
#include <cstdarg>
#include <cstdint>
#include <cstdio>
#include <cstdlib>
#include <cstring>
#include <fcntl.h>
#include <map>
#include <string>
#include <sys/mman.h>
#include <unistd.h>
#include <unordered_set>
#include <vector>

namespace vh {

//------------------------------------------------------------------------------------------------
inline uint64_t splitmix64(uint64_t& x) {
    uint64_t z = (x += 0x9E3779B97F4A7C15ULL);
    z = (z ^ (z >> 30)) * 0xBF58476D1CE4E5B9ULL;
    z = (z ^ (z >> 27)) * 0x94D049BB133111EBULL;
    return z ^ (z >> 31);
}

struct Hasher
{
    uint64_t h{0xcbf29ce484222325ULL};
    Hasher& bytes(const void* p, size_t n) {
        const auto* b = static_cast<const unsigned char*>(p);
        for (size_t i = 0; i < n; ++i) {
            h ^= b[i];
            h *= 0x100000001b3ULL;
        }
        return *this;
    }
    Hasher& u64(uint64_t v) {
        return bytes(&v, sizeof(v));
    }
    Hasher& i(long long v) {
        return bytes(&v, sizeof(v));
    }
    Hasher& d(double v) {
        return bytes(&v, sizeof(v));
    }
    Hasher& s(const std::string& v) {
        return bytes(v.data(), v.size());
    }
    Hasher& s(const char* v) {
        return bytes(v, strlen(v));
    }
    [[nodiscard]] uint64_t get() const {
        uint64_t x = h;
        return splitmix64(x);
    }
};

//xoshiro256**
struct Rng
{
    uint64_t s[4];
    explicit Rng(uint64_t seed = 1) {
        reseed(seed);
    }
    void reseed(uint64_t seed) {
        for (auto& v : s) {
            v = splitmix64(seed);
        }
    }
    static uint64_t rotl(uint64_t x, int k) {
        return (x << k) | (x >> (64 - k));
    }
    uint64_t next() {
        const uint64_t result = rotl(s[1] * 5, 7) * 9;
        const uint64_t t = s[1] << 17;
        s[2] ^= s[0];
        s[3] ^= s[1];
        s[1] ^= s[2];
        s[0] ^= s[3];
        s[2] ^= t;
        s[3] = rotl(s[3], 45);
        return result;
    }
    //uniform in [0,1)
    double uni() {
        return double(next() >> 11) * (1.0 / 9007199254740992.0);
    }
    double uni(double a, double b) {
        return a + (b - a) * uni();
    }
    //integer in [0,n)
    uint64_t below(uint64_t n) {
        return (n == 0) ? 0 : (next() % n);
    }
    //integer in [a,b]
    long long range(long long a, long long b) {
        return a + (long long)below(uint64_t(b - a + 1));
    }
    bool coin() {
        return (next() >> 63) != 0;
    }
    double gauss() {
        double u1 = uni();
        while (u1 <= 0) {
            u1 = uni();
        }
        const double u2 = uni();
        return std::sqrt(-2.0 * std::log(u1)) * std::cos(6.283185307179586476925 * u2);
    }
    //log-uniform magnitude in [lo,hi], random sign
    double logmag(double lo, double hi) {
        const double e = uni(std::log(lo), std::log(hi));
        const double v = std::exp(e);
        return coin() ? v : -v;
    }
    template<class T>
    const T& pick(const std::vector<T>& v) {
        return v[below(v.size())];
    }
};

//------------------------------------------------------------------------------------------------
struct Viol
{
    std::string witness;
    uint64_t count{0};
};

struct Ctx
{
    std::string prop;
    std::string tier{"quick"};
    uint64_t seed{1};
    int shard{0};
    int nshards{1};
    std::string out;
    std::string only;   //replay filter (substring of the case class), empty = all
    std::map<std::string, std::string> opts;   //--opt key=value (per run-spec parameters)

    uint64_t evals{0};
    std::unordered_set<uint64_t> hashes;
    std::map<std::string, double> obs;
    std::vector<std::string> samples;
    std::map<std::string, std::string> case_samples;   //first concrete case description seen per case class
    std::map<std::string, Viol> viols;
    std::vector<std::string> inconclusive;
    std::map<std::string, uint64_t> skipped;
    bool exhaustive{false};
    char* cur{nullptr};
    char curbuf[512]{0};
    uint64_t case_counter{0};

    [[nodiscard]] bool quick() const {
        return tier != "thorough";
    }
    [[nodiscard]] bool thorough() const {
        return tier == "thorough";
    }
};

inline Ctx g;

inline std::string jesc(const std::string& s) {
    std::string r;
    r.reserve(s.size() + 8);
    for (unsigned char c : s) {
        switch (c) {
        case '"':
            r += "\\\"";
            break;
        case '\\':
            r += "\\\\";
            break;
        case '\n':
            r += "\\n";
            break;
        case '\t':
            r += "\\t";
            break;
        case '\r':
            r += "\\r";
            break;
        default:
            if (c < 0x20) {
                char b[8];
                snprintf(b, sizeof(b), "\\u%04x", c);
                r += b;
            } else {
                r += char(c);
            }
        }
    }
    return r;
}

inline std::string fmt(const char* f, ...) {
    char buf[2048];
    va_list ap;
    va_start(ap, f);
    vsnprintf(buf, sizeof(buf), f, ap);
    va_end(ap);
    return std::string(buf);
}

inline void init(int argc, char** argv, const char* prop) {
    g.prop = prop;
    for (int i = 1; i < argc; ++i) {
        const std::string a = argv[i];
        auto val = [&]() -> std::string {
            if (i + 1 >= argc) {
                fprintf(stderr, "missing value for %s\n", a.c_str());
                exit(2);
            }
            return argv[++i];
        };
        if (a == "--tier") {
            g.tier = val();
        } else if (a == "--seed") {
            g.seed = strtoull(val().c_str(), nullptr, 10);
        } else if (a == "--shard") {
            g.shard = atoi(val().c_str());
        } else if (a == "--nshards") {
            g.nshards = atoi(val().c_str());
        } else if (a == "--out") {
            g.out = val();
        } else if (a == "--only") {
            g.only = val();
        } else if (a == "--opt") {
            const std::string kv = val();
            const auto p = kv.find('=');
            g.opts[kv.substr(0, p)] = (p == std::string::npos) ? "1" : kv.substr(p + 1);
        } else {
            fprintf(stderr, "unknown argument %s\n", a.c_str());
            exit(2);
        }
    }
    if (g.nshards < 1 || g.shard < 0 || g.shard >= g.nshards) {
        fprintf(stderr, "bad shard spec\n");
        exit(2);
    }
    g.cur = g.curbuf;
    if (!g.out.empty()) {
        const std::string p = g.out + ".cur";
        const int fd = open(p.c_str(), O_RDWR | O_CREAT | O_TRUNC, 0644);
        if (fd >= 0 && ftruncate(fd, 512) == 0) {
            void* m = mmap(nullptr, 512, PROT_READ | PROT_WRITE, MAP_SHARED, fd, 0);
            if (m != MAP_FAILED) {
                g.cur = static_cast<char*>(m);
            }
        }
        if (fd >= 0) {
            close(fd);
        }
    }
}

inline std::string opt(const std::string& k, const std::string& def = "") {
    auto it = g.opts.find(k);
    return (it == g.opts.end()) ? def : it->second;
}

//PRNG for a named stream: independent of the shard layout
inline Rng rng_for(uint64_t stream) {
    Hasher h;
    h.s(g.prop).u64(g.seed).u64(stream);
    return Rng(h.get());
}

inline Rng rng_for(const char* name, uint64_t k = 0) {
    Hasher h;
    h.s(name).u64(k);
    return rng_for(h.get());
}

//does case number idx belong to this shard?
inline bool mine(uint64_t idx) {
    return (idx % uint64_t(g.nshards)) == uint64_t(g.shard);
}

//round-robin over a running counter
inline bool mine_next() {
    return mine(g.case_counter++);
}

//records what is about to run (class = coarse identity used in crash/hang keys, text = replayable description)
inline void begin_case(const char* cls, const char* f, ...) {
    char buf[400];
    va_list ap;
    va_start(ap, f);
    vsnprintf(buf, sizeof(buf), f, ap);
    va_end(ap);
    snprintf(g.cur, 512, "%s\t%s", cls, buf);
    if (g.case_samples.size() < 8 && g.case_samples.find(cls) == g.case_samples.end()) {
        g.case_samples[cls] = buf;
    }
}

inline bool selected(const char* cls) {
    return g.only.empty() || (std::string(cls).find(g.only) != std::string::npos);
}

//one oracle evaluation; hash identifies the case, nontrivial per the property's rule
inline void count(uint64_t hash, bool nontrivial = true) {
    ++g.evals;
    if (nontrivial) {
        g.hashes.insert(hash);
    }
}

inline void violation(const std::string& key, const std::string& witness) {
    auto& v = g.viols[key];
    if (v.count == 0) {
        v.witness = witness;
    }
    ++v.count;
}

inline void inconclusive(const std::string& why) {
    if (g.inconclusive.size() < 20) {
        g.inconclusive.push_back(why);
    }
}

inline void obs_add(const std::string& name, double v = 1) {
    g.obs[name] += v;
}

inline void obs_max(const std::string& name, double v) {
    const std::string k = name + "_max";
    auto it = g.obs.find(k);
    if (it == g.obs.end() || v > it->second) {
        g.obs[k] = v;
    }
}

inline void obs_min(const std::string& name, double v) {
    const std::string k = name + "_min";
    auto it = g.obs.find(k);
    if (it == g.obs.end() || v < it->second) {
        g.obs[k] = v;
    }
}

inline void skip(const std::string& why) {
    ++g.skipped[why];
}

inline void sample(const std::string& text) {
    if (g.samples.size() < 4) {
        g.samples.push_back(text);
    }
}

inline std::string num(double v) {
    if (std::isnan(v)) {
        return "\"nan\"";
    }
    if (std::isinf(v)) {
        return v > 0 ? "\"inf\"" : "\"-inf\"";
    }
    char b[40];
    if (v == std::floor(v) && std::fabs(v) < 9e15) {
        snprintf(b, sizeof(b), "%.0f", v);
    } else {
        snprintf(b, sizeof(b), "%.6g", v);
    }
    return b;
}

inline int finish() {
    snprintf(g.cur, 512, "done\t");
    if (g.out.empty()) {
        printf("evals=%" PRIu64 " distinct=%zu violations=%zu inconclusive=%zu\n", g.evals, g.hashes.size(), g.viols.size(),
               g.inconclusive.size());
        for (auto& kv : g.viols) {
            printf("VIOL %s x%" PRIu64 " :: %s\n", kv.first.c_str(), kv.second.count, kv.second.witness.c_str());
        }
        for (auto& kv : g.obs) {
            printf("obs %s = %s\n", kv.first.c_str(), num(kv.second).c_str());
        }
        for (auto& kv : g.skipped) {
            printf("skipped %s = %" PRIu64 "\n", kv.first.c_str(), kv.second);
        }
        for (auto& s : g.inconclusive) {
            printf("INCONCLUSIVE %s\n", s.c_str());
        }
        return 0;
    }
    {
        const std::string hp = g.out + ".hashes";
        FILE* f = fopen(hp.c_str(), "wb");
        if (f != nullptr) {
            std::vector<uint64_t> v(g.hashes.begin(), g.hashes.end());
            if (!v.empty()) {
                fwrite(v.data(), sizeof(uint64_t), v.size(), f);
            }
            fclose(f);
        }
    }
    const std::string tmp = g.out + ".tmp";
    FILE* f = fopen(tmp.c_str(), "w");
    if (f == nullptr) {
        fprintf(stderr, "cannot write %s\n", tmp.c_str());
        return 2;
    }
    fprintf(f, "{\"prop\":\"%s\",\"tier\":\"%s\",\"seed\":%" PRIu64 ",\"shard\":%d,\"nshards\":%d,\n", g.prop.c_str(),
            g.tier.c_str(), g.seed, g.shard, g.nshards);
    fprintf(f, "\"evaluations\":%" PRIu64 ",\"distinct\":%zu,\"exhaustive\":%s,\n", g.evals, g.hashes.size(),
            g.exhaustive ? "true" : "false");
    fprintf(f, "\"obs\":{");
    bool first = true;
    for (auto& kv : g.obs) {
        fprintf(f, "%s\"%s\":%s", first ? "" : ",", jesc(kv.first).c_str(), num(kv.second).c_str());
        first = false;
    }
    fprintf(f, "},\n\"skipped\":{");
    first = true;
    for (auto& kv : g.skipped) {
        fprintf(f, "%s\"%s\":%" PRIu64, first ? "" : ",", jesc(kv.first).c_str(), kv.second);
        first = false;
    }
    fprintf(f, "},\n\"samples\":[");
    first = true;
    for (auto& s : g.samples) {
        fprintf(f, "%s\"%s\"", first ? "" : ",", jesc(s).c_str());
        first = false;
    }
    for (auto& kv : g.case_samples) {
        fprintf(f, "%s\"executed case [%s]: %s\"", first ? "" : ",", jesc(kv.first).c_str(), jesc(kv.second).c_str());
        first = false;
    }
    fprintf(f, "],\n\"inconclusive\":[");
    first = true;
    for (auto& s : g.inconclusive) {
        fprintf(f, "%s\"%s\"", first ? "" : ",", jesc(s).c_str());
        first = false;
    }
    fprintf(f, "],\n\"violations\":[");
    first = true;
    for (auto& kv : g.viols) {
        fprintf(f, "%s\n{\"key\":\"%s\",\"count\":%" PRIu64 ",\"witness\":\"%s\"}", first ? "" : ",", jesc(kv.first).c_str(),
                kv.second.count, jesc(kv.second.witness).c_str());
        first = false;
    }
    fprintf(f, "]}\n");
    fclose(f);
    rename(tmp.c_str(), g.out.c_str());
    return 0;
}

}   // namespace vh
