// dsp.h - glue between dsplib arrays and the long double reference types
#pragma once
#include <cstring>
#include <thread>
#include <vector>

#include <dsplib.h>

#include "ref.h"
#include "vh.h"

#include <exception>
#include <functional>
#include <string>

namespace vd {

using dsplib::arr_cmplx;
using dsplib::arr_int;
using dsplib::arr_real;
using dsplib::cmplx_t;
using dsplib::real_t;
using ref::C;
using ref::CV;
using ref::ld;
using ref::RV;

inline CV to_ref(const arr_cmplx& x) {
    CV r(x.size());
    for (int i = 0; i < x.size(); ++i) {
        r[i] = {x[i].re, x[i].im};
    }
    return r;
}

inline CV to_refc(const arr_real& x) {
    CV r(x.size());
    for (int i = 0; i < x.size(); ++i) {
        r[i] = {x[i], 0};
    }
    return r;
}

inline RV to_ref(const arr_real& x) {
    RV r(x.size());
    for (int i = 0; i < x.size(); ++i) {
        r[i] = x[i];
    }
    return r;
}

//||x - y||_2
inline ld diff2(const arr_cmplx& x, const CV& y) {
    ld s = 0;
    for (int i = 0; i < x.size(); ++i) {
        const ld dr = ld(x[i].re) - y[i].re;
        const ld di = ld(x[i].im) - y[i].im;
        s += dr * dr + di * di;
    }
    return sqrtl(s);
}

inline ld diff2(const arr_real& x, const RV& y) {
    ld s = 0;
    for (int i = 0; i < x.size(); ++i) {
        const ld dr = ld(x[i]) - y[i];
        s += dr * dr;
    }
    return sqrtl(s);
}

inline ld diff2(const arr_cmplx& x, const arr_cmplx& y) {
    ld s = 0;
    for (int i = 0; i < x.size(); ++i) {
        const ld dr = ld(x[i].re) - ld(y[i].re);
        const ld di = ld(x[i].im) - ld(y[i].im);
        s += dr * dr + di * di;
    }
    return sqrtl(s);
}

inline ld diff2(const arr_real& x, const arr_real& y) {
    ld s = 0;
    for (int i = 0; i < x.size(); ++i) {
        const ld dr = ld(x[i]) - ld(y[i]);
        s += dr * dr;
    }
    return sqrtl(s);
}

inline ld norm2(const arr_cmplx& x) {
    ld s = 0;
    for (int i = 0; i < x.size(); ++i) {
        s += ld(x[i].re) * x[i].re + ld(x[i].im) * x[i].im;
    }
    return sqrtl(s);
}

inline ld norm2(const arr_real& x) {
    ld s = 0;
    for (int i = 0; i < x.size(); ++i) {
        s += ld(x[i]) * x[i];
    }
    return sqrtl(s);
}

inline ld maxabs(const arr_real& x) {
    ld m = 0;
    for (int i = 0; i < x.size(); ++i) {
        m = std::max(m, fabsl(ld(x[i])));
    }
    return m;
}

inline ld maxabs(const arr_cmplx& x) {
    ld m = 0;
    for (int i = 0; i < x.size(); ++i) {
        m = std::max(m, hypotl(ld(x[i].re), ld(x[i].im)));
    }
    return m;
}

inline bool all_finite(const arr_real& x) {
    for (int i = 0; i < x.size(); ++i) {
        if (!std::isfinite(x[i])) {
            return false;
        }
    }
    return true;
}

inline bool all_finite(const arr_cmplx& x) {
    for (int i = 0; i < x.size(); ++i) {
        if (!std::isfinite(x[i].re) || !std::isfinite(x[i].im)) {
            return false;
        }
    }
    return true;
}

inline bool bit_equal(const arr_real& a, const arr_real& b) {
    return (a.size() == b.size()) && (a.size() == 0 || std::memcmp(a.data(), b.data(), a.size() * sizeof(real_t)) == 0);
}

inline bool bit_equal(const arr_cmplx& a, const arr_cmplx& b) {
    return (a.size() == b.size()) && (a.size() == 0 || std::memcmp(a.data(), b.data(), a.size() * sizeof(cmplx_t)) == 0);
}

inline uint64_t hash_arr(const arr_real& a) {
    vh::Hasher h;
    h.i(a.size());
    if (a.size() > 0) {
        h.bytes(a.data(), a.size() * sizeof(real_t));
    }
    return h.get();
}

inline uint64_t hash_arr(const arr_cmplx& a) {
    vh::Hasher h;
    h.i(a.size());
    if (a.size() > 0) {
        h.bytes(a.data(), a.size() * sizeof(cmplx_t));
    }
    return h.get();
}

inline arr_real gauss_real(vh::Rng& r, int n, double scale = 1.0) {
    arr_real x(n);
    for (int i = 0; i < n; ++i) {
        x[i] = r.gauss() * scale;
    }
    return x;
}

inline arr_cmplx gauss_cmplx(vh::Rng& r, int n, double scale = 1.0) {
    arr_cmplx x(n);
    for (int i = 0; i < n; ++i) {
        x[i].re = r.gauss() * scale;
        x[i].im = r.gauss() * scale;
    }
    return x;
}

//outcome of a call that may throw
enum class Outcome
{
    Returned,
    Threw,          //C++ exception derived from std::exception
    ThrewOther      //anything else
};

inline Outcome try_call(const std::function<void()>& fn, std::string* what = nullptr) {
    try {
        fn();
        return Outcome::Returned;
    } catch (const std::exception& e) {
        if (what != nullptr) {
            *what = e.what();
        }
        return Outcome::Threw;
    } catch (...) {
        return Outcome::ThrewOther;
    }
}

inline std::string head(const arr_real& x, int k = 6) {
    std::string s = "[";
    for (int i = 0; i < x.size() && i < k; ++i) {
        s += vh::fmt("%s%.17g", i ? "," : "", x[i]);
    }
    if (x.size() > k) {
        s += ",...";
    }
    return s + "]";
}

inline std::string head(const arr_cmplx& x, int k = 4) {
    std::string s = "[";
    for (int i = 0; i < x.size() && i < k; ++i) {
        s += vh::fmt("%s%.17g%+.17gi", i ? "," : "", x[i].re, x[i].im);
    }
    if (x.size() > k) {
        s += ",...";
    }
    return s + "]";
}


//runs f in a newly created thread (fresh thread_local state: plan caches, memoised designs, scratch buffers) and waits for it
template<class F>
inline void in_fresh_thread(F f) {
    std::thread t(f);
    t.join();
}

inline bool bits_equal_vec(const std::vector<double>& a, const std::vector<double>& b) {
    return a.size() == b.size() && (a.empty() || std::memcmp(a.data(), b.data(), a.size() * sizeof(double)) == 0);
}

//history independence of a pure call: its result after whatever this thread did before must equal, bit for bit, the result of the same
//call made first thing in a fresh thread
template<class F>
inline bool same_as_in_fresh_thread(F f) {
    const std::vector<double> here = f();
    std::vector<double> fresh;
    in_fresh_thread([&] { fresh = f(); });
    return bits_equal_vec(here, fresh);
}
}   // namespace vd
