// ref.h - extended-precision reference mathematics (long double, 64-bit mantissa) used by the oracles.
// Nothing here calls dsplib.
#pragma once

#include <cmath>
#include <complex>
#include <cstdint>
#include <vector>

namespace ref {

using ld = long double;

constexpr double EPS = 2.220446049250313e-16;   //2^-52
constexpr ld PI_L = 3.14159265358979323846264338327950288L;

struct C
{
    ld re{0};
    ld im{0};
    C() = default;
    C(ld r, ld i = 0)
      : re{r}
      , im{i} {
    }
};

inline C operator+(const C& a, const C& b) {
    return {a.re + b.re, a.im + b.im};
}
inline C operator-(const C& a, const C& b) {
    return {a.re - b.re, a.im - b.im};
}
inline C operator*(const C& a, const C& b) {
    return {a.re * b.re - a.im * b.im, a.re * b.im + a.im * b.re};
}
inline C operator*(const C& a, ld b) {
    return {a.re * b, a.im * b};
}
inline C operator/(const C& a, const C& b) {
    const ld d = b.re * b.re + b.im * b.im;
    return {(a.re * b.re + a.im * b.im) / d, (a.im * b.re - a.re * b.im) / d};
}
inline C conj(const C& a) {
    return {a.re, -a.im};
}
inline ld abs2(const C& a) {
    return a.re * a.re + a.im * a.im;
}
inline ld cabs(const C& a) {
    return hypotl(a.re, a.im);
}
inline C cis(ld ang) {
    return {cosl(ang), sinl(ang)};
}

using CV = std::vector<C>;
using RV = std::vector<ld>;

//exp(sign * 2*pi*i * j / n) for j = 0..n-1
inline CV twiddles(int n, int sign) {
    CV w(n);
    for (int j = 0; j < n; ++j) {
        //reduce to the first octant for accuracy near the axes
        const ld a = 2 * PI_L * ld(j) / ld(n);
        w[j] = {cosl(a), sign * sinl(a)};
    }
    //exact values on the axes
    w[0] = {1, 0};
    if (n % 2 == 0) {
        w[n / 2] = {-1, 0};
    }
    if (n % 4 == 0) {
        w[n / 4] = {0, ld(sign)};
        w[3 * n / 4] = {0, ld(-sign)};
    }
    return w;
}

//direct O(n^2) DFT, sign = -1 forward, +1 inverse (no scaling)
inline CV dft_direct(const CV& x, int sign = -1) {
    const int n = int(x.size());
    CV y(n);
    if (n == 0) {
        return y;
    }
    const CV w = twiddles(n, sign);
    for (int k = 0; k < n; ++k) {
        ld sr = 0;
        ld si = 0;
        uint64_t idx = 0;
        for (int m = 0; m < n; ++m) {
            const C& t = w[idx];
            sr += x[m].re * t.re - x[m].im * t.im;
            si += x[m].re * t.im + x[m].im * t.re;
            idx += uint64_t(k);
            if (idx >= uint64_t(n)) {
                idx -= uint64_t(n);
            }
        }
        y[k] = {sr, si};
    }
    return y;
}

//single bin by the definition
inline C dft_bin(const CV& x, int k, int sign = -1) {
    const int n = int(x.size());
    ld sr = 0;
    ld si = 0;
    for (int m = 0; m < n; ++m) {
        const uint64_t r = (uint64_t(m) * uint64_t(k)) % uint64_t(n);
        const ld a = 2 * PI_L * ld(r) / ld(n);
        const ld c = cosl(a);
        const ld s = sign * sinl(a);
        sr += x[m].re * c - x[m].im * s;
        si += x[m].re * s + x[m].im * c;
    }
    return {sr, si};
}

//iterative radix-2, in place; n power of two
inline void fft_pow2(CV& a, int sign) {
    const int n = int(a.size());
    for (int i = 1, j = 0; i < n; ++i) {
        int bit = n >> 1;
        for (; j & bit; bit >>= 1) {
            j ^= bit;
        }
        j ^= bit;
        if (i < j) {
            std::swap(a[i], a[j]);
        }
    }
    const CV w = twiddles(n, sign);
    for (int len = 2; len <= n; len <<= 1) {
        const int step = n / len;
        for (int i = 0; i < n; i += len) {
            for (int k = 0; k < len / 2; ++k) {
                const C u = a[i + k];
                const C v = a[i + k + len / 2] * w[k * step];
                a[i + k] = u + v;
                a[i + k + len / 2] = u - v;
            }
        }
    }
}

//any-length DFT in O(n log n): radix-2 or Bluestein (long double)
inline CV dft_fast(const CV& x, int sign = -1) {
    const int n = int(x.size());
    if (n <= 1) {
        return x;
    }
    if ((n & (n - 1)) == 0) {
        CV a = x;
        fft_pow2(a, sign);
        return a;
    }
    int m = 1;
    while (m < 2 * n - 1) {
        m <<= 1;
    }
    //chirp: exp(sign * i*pi*k^2/n), k^2 reduced mod 2n exactly
    CV ch(n);
    for (int k = 0; k < n; ++k) {
        const uint64_t r = (uint64_t(k) * uint64_t(k)) % uint64_t(2 * n);
        const ld a = PI_L * ld(r) / ld(n);
        ch[k] = {cosl(a), sign * sinl(a)};
    }
    CV a(m);
    CV b(m);
    for (int k = 0; k < n; ++k) {
        a[k] = x[k] * ch[k];
    }
    b[0] = conj(ch[0]);
    for (int k = 1; k < n; ++k) {
        b[k] = conj(ch[k]);
        b[m - k] = conj(ch[k]);
    }
    fft_pow2(a, -1);
    fft_pow2(b, -1);
    for (int i = 0; i < m; ++i) {
        a[i] = a[i] * b[i];
    }
    fft_pow2(a, +1);
    CV y(n);
    const ld inv = ld(1) / ld(m);
    for (int k = 0; k < n; ++k) {
        y[k] = (a[k] * inv) * ch[k];
    }
    return y;
}

//DFT used by the oracles: direct up to `direct_max`, fast above
inline CV dft(const CV& x, int sign = -1, int direct_max = 2048) {
    if (int(x.size()) <= direct_max) {
        return dft_direct(x, sign);
    }
    return dft_fast(x, sign);
}

inline ld norm2(const CV& x) {
    ld s = 0;
    for (const auto& v : x) {
        s += abs2(v);
    }
    return sqrtl(s);
}

inline ld norm2(const RV& x) {
    ld s = 0;
    for (const auto& v : x) {
        s += v * v;
    }
    return sqrtl(s);
}

}   // namespace ref
