// C01 - forward transforms equal the DFT for every length and input.
// Oracle: long double DFT of the same samples; ||X - Xref||_2 <= 32*n*eps*||Xref||_2.
#include "dsp.h"

#include <algorithm>

using namespace vd;
namespace dl = dsplib;

static const double TOL_K = 32.0;

static bool is_prime(int n) {
    if (n < 2) {
        return false;
    }
    for (int d = 2; (long long)d * d <= n; ++d) {
        if (n % d == 0) {
            return false;
        }
    }
    return true;
}

static bool is_pow2(int n) {
    return n > 0 && (n & (n - 1)) == 0;
}

static const char* cplx_path(int n) {
    if (n == 1 || n == 2 || n == 4 || n == 8) {
        return "small";
    }
    if (is_prime(n)) {
        return n == 3 ? "dft3" : (n <= 41 ? "prime_direct" : "prime_bluestein");
    }
    if (is_pow2(n)) {
        return "radix2";
    }
    return "factor_tree";
}

static const char* real_path(int n) {
    if (n == 1 || n == 2 || n == 4 || n == 8) {
        return "small";
    }
    if (is_prime(n)) {
        return "prime";
    }
    if (n % 2 == 0) {
        return "even_packed";
    }
    return "odd_composite";
}

//reference with self-monitoring for the fast path
static CV reference(const CV& x, bool* oracle_ok) {
    const int n = int(x.size());
    *oracle_ok = true;
    if (n <= 2048) {
        return ref::dft_direct(x, -1);
    }
    CV y = ref::dft_fast(x, -1);
    vh::Rng r(0x5eed ^ uint64_t(n));
    const ld scale = ref::norm2(y) + 1e-300L;
    for (int t = 0; t < 32; ++t) {
        const int k = int(r.below(n));
        const C b = ref::dft_bin(x, k, -1);
        const ld d = ref::cabs(b - y[k]);
        if (d > 1e-15L * scale) {
            *oracle_ok = false;
        }
    }
    return y;
}

struct Input
{
    const char* cls;
    bool is_real;
    arr_cmplx xc;
    arr_real xr;
};

static std::vector<Input> make_inputs(int n, vh::Rng& r) {
    std::vector<Input> v;
    auto addc = [&](const char* cls, const arr_cmplx& x) {
        v.push_back({cls, false, x, arr_real()});
    };
    auto addr = [&](const char* cls, const arr_real& x) {
        v.push_back({cls, true, arr_cmplx(), x});
    };
    addc("gauss_c", gauss_cmplx(r, n));
    addr("gauss_r", gauss_real(r, n));
    {
        arr_cmplx x(n);
        x[int(r.below(n))] = cmplx_t{r.gauss(), r.gauss()};
        addc("impulse_c", x);
        arr_real y(n);
        y[int(r.below(n))] = 1.0 + r.uni();
        addr("impulse_r", y);
    }
    {
        arr_cmplx x(n);
        const cmplx_t c{r.gauss(), r.gauss()};
        for (int i = 0; i < n; ++i) {
            x[i] = c;
        }
        addc("const_c", x);
        arr_real y(n);
        const double cr = r.gauss();
        for (int i = 0; i < n; ++i) {
            y[i] = cr;
        }
        addr("const_r", y);
    }
    {
        //single complex tone, on-bin and off-bin
        const int k = int(r.below(n));
        arr_cmplx x(n);
        arr_cmplx z(n);
        const double off = k + r.uni(0.1, 0.9);
        for (int i = 0; i < n; ++i) {
            const long double a = 2 * ref::PI_L * (long double)((uint64_t(i) * uint64_t(k)) % uint64_t(n)) / n;
            x[i] = cmplx_t{double(cosl(a)), double(sinl(a))};
            const long double b = 2 * ref::PI_L * fmodl((long double)i * off, (long double)n) / n;
            z[i] = cmplx_t{double(cosl(b)), double(sinl(b))};
        }
        addc("tone_on", x);
        addc("tone_off", z);
        arr_real y(n);
        for (int i = 0; i < n; ++i) {
            y[i] = z[i].re;
        }
        addr("tone_r", y);
    }
    {
        arr_cmplx x(n);
        arr_real y(n);
        for (int i = 0; i < n; ++i) {
            x[i] = cmplx_t{(i % 2) ? -1.0 : 1.0, (i % 2) ? 0.5 : -0.5};
            y[i] = (i % 2) ? -1.0 : 1.0;
        }
        addc("altsign_c", x);
        addr("altsign_r", y);
    }
    {
        //1e+-150 dynamic range
        const int mode = int(r.below(3));
        arr_cmplx x(n);
        arr_real y(n);
        for (int i = 0; i < n; ++i) {
            double s;
            if (mode == 0) {
                s = 1e150;
            } else if (mode == 1) {
                s = 1e-150;
            } else {
                s = std::fabs(r.logmag(1e-150, 1e150));
            }
            x[i] = cmplx_t{r.gauss() * s, r.gauss() * s};
            y[i] = r.gauss() * s;
        }
        addc("dynrange_c", x);
        addr("dynrange_r", y);
    }
    return v;
}

static std::string wit(const char* ep, int n, const char* cls, ld err, ld tol) {
    return vh::fmt("%s n=%d input=%s rel_l2_err=%.3Le tol=%.3Le (32*n*eps) seed=%llu", ep, n, cls, err, tol,
                   (unsigned long long)vh::g.seed);
}

//judge one transform result
static void judge(const char* ep, int n, const char* cls, const arr_cmplx& X, const CV& Xref, uint64_t inhash, const char* keyclass) {
    vh::Hasher h;
    h.s(ep).i(n).u64(inhash);
    const ld nr = ref::norm2(Xref);
    vh::count(h.get(), nr > 0);
    if (X.size() != n) {
        vh::violation(vh::fmt("C01/%s/length", ep), vh::fmt("%s n=%d input=%s returned %d values", ep, n, cls, X.size()));
        return;
    }
    const ld err = diff2(X, Xref);
    const ld tol = TOL_K * n * ref::EPS * nr;
    const bool finite = all_finite(X);
    if (nr > 0) {
        vh::obs_max("err_over_n_eps", double(err / (n * ref::EPS * nr)));
    }
    if (!finite || !(err <= tol)) {
        vh::violation(vh::fmt("C01/%s/%s", ep, keyclass), wit(ep, n, cls, nr > 0 ? err / nr : err, TOL_K * n * ref::EPS));
    }
}

static void check_length(int n, vh::Rng& r, bool all_entry_points) {
    auto inputs = make_inputs(n, r);
    vh::obs_add(std::string("path_c_") + cplx_path(n));
    vh::obs_add(std::string("path_r_") + real_path(n));
    const char* kc = cplx_path(n);
    const char* kr = real_path(n);
    for (auto& in : inputs) {
        vh::begin_case("fft", "n=%d input=%s", n, in.cls);
        bool ok = true;
        if (!in.is_real) {
            const CV xr = to_ref(in.xc);
            const CV Xref = reference(xr, &ok);
            if (!ok) {
                vh::inconclusive(vh::fmt("reference FFT self-check failed n=%d", n));
                continue;
            }
            const uint64_t ih = hash_arr(in.xc);
            const arr_cmplx X = dl::fft(in.xc);
            judge("fft_c", n, in.cls, X, Xref, ih, kc);
            if (all_entry_points) {
                dl::FftPlan plan(n);
                const arr_cmplx X2 = plan.solve(in.xc);
                judge("plan_c", n, in.cls, X2, Xref, ih, kc);
                arr_cmplx X3(n);
                const dl::BaseFftPlanC& base = plan;
                base.solve(in.xc.data(), X3.data(), n);
                judge("plan_c_ptr", n, in.cls, X3, Xref, ih, kc);
                if (plan.size() != n) {
                    vh::violation("C01/plan_c/size", vh::fmt("FftPlan(%d).size()=%d", n, plan.size()));
                }
                //the input must not be modified
                if (hash_arr(in.xc) != ih) {
                    vh::violation("C01/fft_c/input_modified", vh::fmt("n=%d input=%s", n, in.cls));
                }
            }
        } else {
            const CV xr = to_refc(in.xr);
            const CV Xref = reference(xr, &ok);
            if (!ok) {
                vh::inconclusive(vh::fmt("reference FFT self-check failed n=%d", n));
                continue;
            }
            const uint64_t ih = hash_arr(in.xr);
            const arr_cmplx X = dl::fft(in.xr);
            judge("fft_r", n, in.cls, X, Xref, ih, kr);
            const ld nr = ref::norm2(Xref);
            //real input equals the same values given as complex
            const arr_cmplx Xc = dl::fft(dl::complex(in.xr));
            if (X.size() == n && Xc.size() == n) {
                const ld d = diff2(X, Xc);
                if (!(d <= 2 * TOL_K * n * ref::EPS * nr)) {
                    vh::violation(vh::fmt("C01/real_vs_complex/%s", kr), wit("fft(real) vs fft(complex(real))", n, in.cls, d / (nr + 1e-300L), 2 * TOL_K * n * ref::EPS));
                }
                //conjugate symmetry
                ld s = 0;
                for (int k = 1; k < n; ++k) {
                    const ld dr = ld(X[k].re) - ld(X[n - k].re);
                    const ld di = ld(X[k].im) + ld(X[n - k].im);
                    s += dr * dr + di * di;
                }
                s += ld(X[0].im) * X[0].im;
                if (!(sqrtl(s) <= 2 * TOL_K * n * ref::EPS * nr)) {
                    vh::violation(vh::fmt("C01/conj_symmetry/%s", kr), wit("conjugate symmetry of fft(real)", n, in.cls, sqrtl(s) / (nr + 1e-300L), 2 * TOL_K * n * ref::EPS));
                }
                vh::obs_add("symmetry_checks");
            }
            if (all_entry_points) {
                const arr_cmplx X1 = dl::rfft(in.xr);
                judge("rfft", n, in.cls, X1, Xref, ih, kr);
                dl::FftPlanR plan(n);
                const arr_cmplx X2 = plan.solve(in.xr);
                judge("plan_r", n, in.cls, X2, Xref, ih, kr);
                arr_cmplx X3(n);
                const dl::BaseFftPlanR& base = plan;
                base.solve(in.xr.data(), X3.data(), n);
                judge("plan_r_ptr", n, in.cls, X3, Xref, ih, kr);
                if (plan.size() != n) {
                    vh::violation("C01/plan_r/size", vh::fmt("FftPlanR(%d).size()=%d", n, plan.size()));
                }
                if (hash_arr(in.xr) != ih) {
                    vh::violation("C01/fft_r/input_modified", vh::fmt("n=%d input=%s", n, in.cls));
                }
            }
        }
    }
    if (n == 12 || n == 97) {
        vh::sample(vh::fmt("n=%d: %zu inputs x {fft, plan.solve(array), plan.solve(pointers), rfft} vs long-double DFT", n, inputs.size()));
    }
}

static void check_pad(int n, vh::Rng& r) {
    const arr_cmplx xc = gauss_cmplx(r, n);
    const arr_real xr = gauss_real(r, n);
    for (int m = 1; m <= 2 * n; ++m) {
        vh::begin_case("fft_pad", "n=%d target=%d", n, m);
        CV pc(m);
        CV pr(m);
        for (int i = 0; i < m && i < n; ++i) {
            pc[i] = {xc[i].re, xc[i].im};
            pr[i] = {xr[i], 0};
        }
        const CV Rc = ref::dft_direct(pc, -1);
        const CV Rr = ref::dft_direct(pr, -1);
        vh::Hasher h;
        h.i(n).i(m);
        judge("fft_c_n", m, "gauss_c", dl::fft(xc, m), Rc, h.get() ^ hash_arr(xc), (m < n) ? "truncate" : (m > n ? "pad" : "same"));
        judge("fft_r_n", m, "gauss_r", dl::fft(xr, m), Rr, h.get() ^ hash_arr(xr), (m < n) ? "truncate" : (m > n ? "pad" : "same"));
        judge("rfft_n", m, "gauss_r", dl::rfft(xr, m), Rr, h.get() ^ hash_arr(xr) ^ 1, (m < n) ? "truncate" : (m > n ? "pad" : "same"));
    }
}

static void check_czt(int n, int m, vh::Rng& r, bool unit_a) {
    const double th = r.uni(-3.14159, 3.14159);
    const cmplx_t w{std::cos(th), std::sin(th)};
    cmplx_t a{1, 0};
    if (!unit_a) {
        double lim = std::log(2.0);
        if (n > 300) {
            lim = std::min(lim, std::log(1e100) / n);
        }
        //a third of the start points lie exactly on the unit circle (the zoom-FFT case), some on the axes
        const uint64_t ak = r.below(6);
        const double mag = (ak <= 1) ? 1.0 : std::exp(r.uni(-lim, lim));
        const double ph = (ak == 0) ? (3.14159265358979323846 / 2) * double(r.range(-2, 2)) : r.uni(-3.14159, 3.14159);
        a = cmplx_t{mag * std::cos(ph), mag * std::sin(ph)};
        if (ak == 0) {
            //exact axis points
            const int q = ((int(std::lround(ph / (3.14159265358979323846 / 2))) % 4) + 4) % 4;
            const cmplx_t axis[4] = {{1, 0}, {0, 1}, {-1, 0}, {0, -1}};
            a = axis[q];
        }
        if (ak <= 1) {
            vh::obs_add("czt_cases_with_unit_modulus_start");
        }
    }
    const arr_cmplx x = gauss_cmplx(r, n);
    vh::begin_case("czt", "n=%d m=%d w=(%.17g,%.17g) a=(%.17g,%.17g)", n, m, w.re, w.im, a.re, a.im);
    //reference
    const ld tw = atan2l(ld(w.im), ld(w.re));
    const ld ta = atan2l(ld(a.im), ld(a.re));
    const ld la = logl(hypotl(ld(a.re), ld(a.im)));
    CV xa(n);
    for (int j = 0; j < n; ++j) {
        const ld mg = expl(-la * j);
        const C f = ref::cis(fmodl(-ta * j, 2 * ref::PI_L)) * mg;
        xa[j] = C{x[j].re, x[j].im} * f;
    }
    CV Xref(m);
    for (int k = 0; k < m; ++k) {
        ld sr = 0;
        ld si = 0;
        for (int j = 0; j < n; ++j) {
            const ld ang = fmodl(tw * ld(j) * ld(k), 2 * ref::PI_L);
            const ld c = cosl(ang);
            const ld s = sinl(ang);
            sr += xa[j].re * c - xa[j].im * s;
            si += xa[j].re * s + xa[j].im * c;
        }
        Xref[k] = {sr, si};
    }
    const ld scale = sqrtl(ld(m)) * ref::norm2(xa);
    const int N = std::max(n, m);
    const ld tol = TOL_K * ld(N) * ld(N) * ref::EPS * scale;
    vh::Hasher h;
    h.s("czt").i(n).i(m).d(th).d(a.re).d(a.im).u64(hash_arr(x));
    vh::count(h.get(), scale > 0);
    auto one = [&](const char* ep, const arr_cmplx& X) {
        if (X.size() != m) {
            vh::violation(vh::fmt("C01/%s/length", ep), vh::fmt("%s n=%d m=%d returned %d values", ep, n, m, X.size()));
            return;
        }
        const ld err = diff2(X, Xref);
        vh::obs_max("czt_err_over_N2_eps", double(err / (ld(N) * N * ref::EPS * scale)));
        if (!all_finite(X) || !(err <= tol)) {
            vh::violation(vh::fmt("C01/%s/%s", ep, unit_a ? "a=1" : "a!=1"),
                          vh::fmt("%s n=%d m=%d w=exp(i*%.17g) a=(%.17g,%.17g) err/scale=%.3Le tol=32*N^2*eps=%.3Le", ep, n, m, th, a.re, a.im,
                                  err / scale, TOL_K * ld(N) * N * ref::EPS));
        }
    };
    if (unit_a && r.coin()) {
        one("czt", dl::czt(x, m, w));
    } else {
        one("czt", dl::czt(x, m, w, a));
    }
    dl::CztPlan plan(n, m, w, a);
    one("cztplan", plan.solve(x));
    if (plan.size() != n) {
        vh::violation("C01/cztplan/size", vh::fmt("CztPlan(%d,%d).size()=%d", n, m, plan.size()));
    }
    vh::sample(vh::fmt("czt n=%d m=%d theta_w=%.6f |a|=%.4f", n, m, th, double(hypotl(ld(a.re), ld(a.im)))));
}

int main(int argc, char** argv) {
    vh::init(argc, argv, "C01");
    const bool thorough = vh::g.thorough();
    uint64_t idx = 0;

    //--- every length
    const int full = thorough ? 4096 : 1024;
    const int residue = int(vh::rng_for("residue").below(16));
    for (int n = 1; n <= 4096; ++n) {
        const bool sel = (n <= full) || ((n % 16) == residue);
        if (!sel) {
            continue;
        }
        if (!vh::mine(idx++)) {
            continue;
        }
        vh::Rng r = vh::rng_for("len", n);
        check_length(n, r, true);
        vh::obs_add("lengths_checked");
    }

    //--- sampled large lengths from the named families
    std::vector<int> large = {4099, 8191, 65537, 131071, 130003,   //primes
                              251 * 257, 113 * 127, 331 * 337,     //semiprimes
                              59049, 78125, 16807, 14641, 28561,   //prime powers
                              1024 * 127, 32 * 4093, 4096 * 31,    //2^k*p
                              65520, 83160, 110880, 98280, 55440,  //highly composite
                              65536, 131072, 8192, 16384};
    {
        vh::Rng r = vh::rng_for("large");
        const int extra = thorough ? 40 : 6;
        for (int i = 0; i < extra; ++i) {
            large.push_back(int(r.range(4097, 131072)));
        }
        if (!thorough) {
            //quick: a seeded third of the fixed list
            std::vector<int> sub;
            const int ph = int(r.below(3));
            for (size_t i = 0; i < large.size(); ++i) {
                if (int(i % 3) == ph || i >= large.size() - 6) {
                    sub.push_back(large[i]);
                }
            }
            large = sub;
        }
    }
    for (int n : large) {
        if (!vh::mine(idx++)) {
            continue;
        }
        vh::Rng r = vh::rng_for("len", n);
        check_length(n, r, false);
        vh::obs_add("large_lengths_checked");
        vh::obs_max("largest_n", n);
    }

    //--- pad / truncate
    const int padmax = thorough ? 48 : 24;
    for (int n = 1; n <= padmax; ++n) {
        if (!vh::mine(idx++)) {
            continue;
        }
        vh::Rng r = vh::rng_for("pad", n);
        check_pad(n, r);
    }
    {
        vh::Rng r = vh::rng_for("padrand");
        const int cnt = thorough ? 200 : 30;
        for (int i = 0; i < cnt; ++i) {
            const int n = int(r.range(49, 1500));
            const int m = int(r.range(1, 2 * n));
            if (!vh::mine(idx++)) {
                continue;
            }
            vh::Rng r2 = vh::rng_for("padrand", i);
            const arr_cmplx xc = gauss_cmplx(r2, n);
            const arr_real xr = gauss_real(r2, n);
            vh::begin_case("fft_pad", "n=%d target=%d", n, m);
            CV pc(m);
            CV pr(m);
            for (int k = 0; k < m && k < n; ++k) {
                pc[k] = {xc[k].re, xc[k].im};
                pr[k] = {xr[k], 0};
            }
            vh::Hasher h;
            h.i(n).i(m);
            judge("fft_c_n", m, "gauss_c", dl::fft(xc, m), ref::dft_direct(pc, -1), h.get() ^ hash_arr(xc), (m < n) ? "truncate" : (m > n ? "pad" : "same"));
            judge("fft_r_n", m, "gauss_r", dl::fft(xr, m), ref::dft_direct(pr, -1), h.get() ^ hash_arr(xr), (m < n) ? "truncate" : (m > n ? "pad" : "same"));
        }
    }

    //--- padding histories: the same target length reached from inputs of different lengths one after another in the same thread
    //(the last, shorter frame of a stream after longer ones; what an earlier call padded must not show up later)
    {
        const int cnt = thorough ? 600 : 60;
        for (int i = 0; i < cnt; ++i) {
            if (!vh::mine(idx++)) {
                continue;
            }
            vh::Rng r = vh::rng_for("padhist", i);
            const int m = (i % 3 == 0) ? (1 << int(r.range(3, 10))) : int(r.range(8, 700));
            const int steps = int(r.range(3, 7));
            for (int st = 0; st < steps; ++st) {
                const int n = (st == 0) ? int(r.range(m / 2, m - 1)) : int(r.range(1, m - 1));
                const arr_cmplx xc = gauss_cmplx(r, n);
                const arr_real xr = gauss_real(r, n);
                vh::begin_case("fft_pad_history", "target=%d step=%d input_len=%d", m, st, n);
                CV pc(m);
                CV pr(m);
                for (int k = 0; k < n; ++k) {
                    pc[k] = {xc[k].re, xc[k].im};
                    pr[k] = {xr[k], 0};
                }
                vh::Hasher h;
                h.s("padhist").i(i).i(st);
                const CV Rc = (m <= 256) ? ref::dft_direct(pc, -1) : ref::dft_fast(pc, -1);
                const CV Rr = (m <= 256) ? ref::dft_direct(pr, -1) : ref::dft_fast(pr, -1);
                judge("fft_c_n", m, "gauss_c", dl::fft(xc, m), Rc, h.get() ^ hash_arr(xc), "pad_after_other_lengths");
                judge("fft_r_n", m, "gauss_r", dl::fft(xr, m), Rr, h.get() ^ hash_arr(xr), "pad_after_other_lengths");
                judge("rfft_n", m, "gauss_r", dl::rfft(xr, m), Rr, h.get() ^ hash_arr(xr) ^ 1, "pad_after_other_lengths");
                vh::obs_add("pad_history_steps");
            }
        }
    }

    //--- czt
    {
        vh::Rng r = vh::rng_for("czt");
        const int cnt = thorough ? 1500 : 200;
        for (int i = 0; i < cnt; ++i) {
            const int n = int(r.range(1, 400));
            const int m = int(r.range(1, 400));
            const bool unit_a = (r.below(3) == 0);
            if (!vh::mine(idx++)) {
                continue;
            }
            vh::Rng r2 = vh::rng_for("cztcase", i);
            check_czt(n, m, r2, unit_a);
        }
        const int big = thorough ? 8 : 2;
        for (int i = 0; i < big; ++i) {
            const int n = int(r.range(401, 5000));
            const int m = int(r.range(401, 5000));
            if (!vh::mine(idx++)) {
                continue;
            }
            vh::Rng r2 = vh::rng_for("cztbig", i);
            check_czt(n, m, r2, i % 2 == 0);
        }
    }
    vh::g.exhaustive = true;
    return vh::finish();
}
