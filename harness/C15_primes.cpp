// C15 - prime and power-of-two helpers agree with number theory and terminate.
// Oracles: sieve of Eratosthenes (n <= 2^22 + 2^12), deterministic Miller-Rabin above; logical step budget on the hook.
#include "dsp.h"
#include "verif-hooks.h"

#include <climits>

using namespace vd;
namespace dl = dsplib;

static std::vector<uint8_t> g_sieve;   //1 = prime
static std::vector<uint32_t> g_primes;

static void build_sieve(uint32_t lim) {
    g_sieve.assign(size_t(lim) + 1, 1);
    g_sieve[0] = 0;
    if (lim >= 1) {
        g_sieve[1] = 0;
    }
    for (uint64_t p = 2; p * p <= lim; ++p) {
        if (g_sieve[p]) {
            for (uint64_t q = p * p; q <= lim; q += p) {
                g_sieve[q] = 0;
            }
        }
    }
    for (uint32_t i = 0; i <= lim; ++i) {
        if (g_sieve[i]) {
            g_primes.push_back(i);
        }
    }
}

static uint64_t mulmod(uint64_t a, uint64_t b, uint64_t m) {
    return (unsigned __int128)a * b % m;
}
static uint64_t powmod(uint64_t a, uint64_t e, uint64_t m) {
    uint64_t r = 1;
    a %= m;
    while (e) {
        if (e & 1) {
            r = mulmod(r, a, m);
        }
        a = mulmod(a, a, m);
        e >>= 1;
    }
    return r;
}
//deterministic for all 32-bit n (bases 2,3,5,7 are complete below 3.2e9; 11 covers the rest)
static bool mr_prime(uint64_t n) {
    if (n < 2) {
        return false;
    }
    for (uint64_t p : {2ULL, 3ULL, 5ULL, 7ULL, 11ULL, 13ULL}) {
        if (n % p == 0) {
            return n == p;
        }
    }
    uint64_t d = n - 1;
    int s = 0;
    while ((d & 1) == 0) {
        d >>= 1;
        ++s;
    }
    for (uint64_t a : {2ULL, 3ULL, 5ULL, 7ULL, 11ULL}) {
        uint64_t x = powmod(a, d, n);
        if (x == 1 || x == n - 1) {
            continue;
        }
        bool comp = true;
        for (int i = 1; i < s; ++i) {
            x = mulmod(x, x, n);
            if (x == n - 1) {
                comp = false;
                break;
            }
        }
        if (comp) {
            return false;
        }
    }
    return true;
}

static bool ref_prime(uint64_t n) {
    if (n < g_sieve.size()) {
        return g_sieve[n] != 0;
    }
    return mr_prime(n);
}

static const char* rng_class(uint64_t n) {
    if (n <= (1u << 22)) {
        return "n<=2^22";
    }
    if (n < 4293001441ULL) {
        return "2^22<n<65521^2";
    }
    return "n>=65521^2";
}

//---- step budget ------------------------------------------------------------------------------------------------------
static std::string g_budget_ctx;
static void on_budget(uint64_t steps) {
    vh::violation("C15/" + g_budget_ctx.substr(0, g_budget_ctx.find('(')) + "/steps_over_budget/" + g_budget_ctx.substr(g_budget_ctx.find('|') + 1),
                  g_budget_ctx.substr(0, g_budget_ctx.find('|')) + vh::fmt(": the step counter passed its budget (%llu steps so far); the call is abandoned", (unsigned long long)steps));
    vh::inconclusive("shard stopped early after a step-budget violation (remaining cases of this shard not run)");
    vh::g.inconclusive.clear();   //the violation itself is the verdict
    vh::finish();
    _exit(0);
}

static void arm(const char* fn, uint64_t n, double budget) {
    auto& st = dl::verif::step_state();
    st.steps = 0;
    st.budget = uint64_t(budget);
    st.on_budget = on_budget;
    g_budget_ctx = vh::fmt("%s(%llu)|%s", fn, (unsigned long long)n, rng_class(n));
}
static double disarm(double budget) {
    auto& st = dl::verif::step_state();
    const double ratio = double(st.steps) / budget;
    st.budget = 0;
    return ratio;
}
static double B(uint64_t n) {
    return 32.0 * (std::sqrt(double(n)) + 64.0);
}

static void check_isprime(uint64_t n) {
    vh::begin_case("isprime", "n=%llu", (unsigned long long)n);
    arm("isprime", n, B(n));
    const bool got = dl::isprime(uint32_t(n));
    vh::obs_max("isprime_steps_over_budget", disarm(B(n)));
    vh::count(n * 8 + 1, true);
    if (got != ref_prime(n)) {
        vh::violation(vh::fmt("C15/isprime/wrong/%s", rng_class(n)), vh::fmt("isprime(%llu) = %d, expected %d", (unsigned long long)n, int(got), int(ref_prime(n))));
    }
}

//largest prime factor by trial division with the sieve primes (n < 2^32, sieve covers sqrt(n))
static uint64_t largest_factor(uint64_t n) {
    uint64_t big = 1;
    for (uint32_t p : g_primes) {
        if (uint64_t(p) * p > n) {
            break;
        }
        while (n % p == 0) {
            n /= p;
            big = p;
        }
    }
    return (n > 1) ? std::max(big, n) : big;
}

static void check_factor(uint64_t n) {
    const bool representable = !(n > uint64_t(INT_MAX) && largest_factor(n) > uint64_t(INT_MAX));
    vh::begin_case("factor", "n=%llu", (unsigned long long)n);
    arm("factor", n, B(n) + 64);
    const dl::arr_int f = dl::factor(uint32_t(n));
    vh::obs_max("factor_steps_over_budget", disarm(B(n) + 64));
    vh::count(n * 8 + 2, true);
    if (!representable) {
        //a prime factor above INT_MAX cannot be returned in an arr_int: only termination (the step budget above) is judged
        vh::skip("factor_value_with_a_prime_factor_above_INT_MAX_not_representable_in_arr_int");
        return;
    }
    bool ok = f.size() >= 1;
    std::string why;
    if (n < 2) {
        //as the code documents: the value itself
        ok = (f.size() == 1 && uint64_t(f[0]) == n);
        why = "factor(0/1) must return the value itself";
    } else {
        uint64_t prod = 1;
        for (int i = 0; ok && i < f.size(); ++i) {
            const int64_t v = f[i];
            if (v < 2 || !ref_prime(uint64_t(uint32_t(v)))) {
                ok = false;
                why = vh::fmt("factor %lld is not prime", (long long)v);
            }
            if (i > 0 && f[i] < f[i - 1]) {
                ok = false;
                why = "factors are not in non-decreasing order";
            }
            prod *= uint64_t(uint32_t(v));
        }
        if (ok && prod != n) {
            ok = false;
            why = vh::fmt("product of the factors is %llu", (unsigned long long)prod);
        }
    }
    if (!ok) {
        std::string fs;
        for (int i = 0; i < f.size() && i < 12; ++i) {
            fs += vh::fmt("%s%d", i ? "," : "", f[i]);
        }
        vh::violation(vh::fmt("C15/factor/wrong/%s", rng_class(n)), vh::fmt("factor(%llu) = {%s}: %s", (unsigned long long)n, fs.c_str(), why.c_str()));
    }
}

static void check_nextprime(uint64_t n) {
    if (n > 4294967291ULL) {
        return;   //no representable answer
    }
    vh::begin_case("nextprime", "n=%llu", (unsigned long long)n);
    uint64_t want = n;
    while (!ref_prime(want)) {
        ++want;
    }
    const double budget = B(want) * double(want - n + 1) + 64;
    arm("nextprime", n, budget);
    const uint32_t got = dl::nextprime(uint32_t(n));
    vh::obs_max("nextprime_steps_over_budget", disarm(budget));
    vh::count(n * 8 + 3, true);
    if (got != want) {
        vh::violation(vh::fmt("C15/nextprime/wrong/%s", rng_class(n)), vh::fmt("nextprime(%llu) = %u, expected %llu", (unsigned long long)n, got, (unsigned long long)want));
    }
}

static void check_primes(uint32_t n) {
    vh::begin_case("primes", "n=%u", n);
    size_t cnt = 0;
    while (cnt < g_primes.size() && g_primes[cnt] <= n) {
        ++cnt;
    }
    const double budget = 32.0 * double(cnt + 1) * (std::sqrt(double(n)) + 64.0) + 64 * 54;
    arm("primes", n, budget);
    const dl::arr_int p = dl::primes(n);
    vh::obs_max("primes_steps_over_budget", disarm(budget));
    vh::count(uint64_t(n) * 8 + 4, true);
    bool ok = size_t(p.size()) == cnt;
    for (size_t i = 0; ok && i < cnt; ++i) {
        ok = uint32_t(p[int(i)]) == g_primes[i];
    }
    if (!ok) {
        vh::violation("C15/primes/wrong", vh::fmt("primes(%u) returned %d values, expected the %zu primes <= n (or a wrong entry)", n, p.size(), cnt));
    }
}

static void check_pow2(int m) {
    vh::begin_case("pow2", "m=%d", m);
    int want = 0;
    if (m > 1) {
        want = 32 - __builtin_clz(unsigned(m - 1));
    }
    const bool isp = (m & (m - 1)) == 0;
    arm("nextpow2", uint64_t(m), 256);
    const int got = dl::nextpow2(m);
    disarm(256);
    vh::count(uint64_t(m) * 8 + 5, true);
    if (got != want) {
        vh::violation("C15/nextpow2/wrong", vh::fmt("nextpow2(%d) = %d, expected ceil(log2 m) = %d", m, got, want));
    }
    //ispow2 is only meaningful when 2^nextpow2 is representable
    if (m <= (1 << 30)) {
        const bool gp = dl::ispow2(m);
        if (gp != isp) {
            vh::violation("C15/ispow2/wrong", vh::fmt("ispow2(%d) = %d, expected %d", m, int(gp), int(isp)));
        }
    } else {
        vh::skip("ispow2_above_2^30_shift_not_representable");
    }
}

int main(int argc, char** argv) {
    vh::init(argc, argv, "C15");
    const bool thorough = vh::g.thorough();
    const uint32_t LIM = (1u << 22) + (1u << 12);
    build_sieve(LIM);
    uint64_t idx = 0;

    //---- every n in [0, 2^22] (quick: [0, 2^18] plus one residue class of the rest)
    const uint32_t full = thorough ? (1u << 22) : (1u << 20);
    const uint32_t CH = 4096;
    const uint32_t res = uint32_t(vh::rng_for("residue").below(16));
    for (uint32_t base = 0; base <= (1u << 22); base += CH) {
        const bool sel = (base < full) || ((base / CH) % 16 == res);
        if (!sel) {
            continue;
        }
        if (!vh::mine(idx++)) {
            continue;
        }
        for (uint32_t n = base; n < base + CH && n <= (1u << 22); ++n) {
            check_isprime(n);
            check_factor(n);
            check_nextprime(n);
            if (n >= 1) {
                check_pow2(int(n));
            }
        }
        vh::obs_add("exhaustive_chunks_of_4096");
    }
    //---- windows around 2^16, 2^24, 2^31, 65521^2, 2^32
    {
        const std::vector<uint64_t> centers = {1ULL << 16, 1ULL << 24, 1ULL << 31, 4293001441ULL, 1ULL << 32};
        const int W = thorough ? 4096 : 512;
        for (uint64_t c : centers) {
            for (int64_t off = -W; off <= W; off += 64) {
                if (!vh::mine(idx++)) {
                    continue;
                }
                for (int64_t o = off; o < off + 64 && o <= W; ++o) {
                    const int64_t n = int64_t(c) + o;
                    if (n < 0 || n > 4294967295LL) {
                        continue;
                    }
                    check_isprime(uint64_t(n));
                    check_factor(uint64_t(n));
                    check_nextprime(uint64_t(n));
                }
                vh::obs_add("window_chunks_of_64");
            }
        }
    }
    //---- power-of-two helpers near every 2^k and INT_MAX
    if (vh::mine(idx++)) {
        const int W = thorough ? 4096 : 256;
        for (int k = 1; k <= 30; ++k) {
            for (int o = -W; o <= W; ++o) {
                const int64_t m = (int64_t(1) << k) + o;
                if (m >= 1 && m <= INT_MAX) {
                    check_pow2(int(m));
                }
            }
        }
        check_pow2(INT_MAX);
        check_pow2(INT_MAX - 1);
        check_pow2((1 << 30) + 1);
    }
    //---- squares and products of primes near 2^16
    if (vh::mine(idx++)) {
        std::vector<uint32_t> near;
        for (uint32_t p : g_primes) {
            if (p > 65000 && p < 66100) {
                near.push_back(p);
            }
        }
        for (size_t i = 0; i < near.size(); ++i) {
            for (size_t j = i; j < near.size() && j < i + (thorough ? 40 : 6); ++j) {
                const uint64_t n = uint64_t(near[i]) * near[j];
                if (n <= 4294967295ULL) {
                    check_isprime(n);
                    check_factor(n);
                }
            }
        }
        vh::obs_add("semiprimes_near_2^16_checked");
    }
    //---- random 32-bit arguments
    {
        const int cnt = thorough ? 1000000 : 20000;
        const int per = 500;
        for (int c = 0; c < cnt / per; ++c) {
            if (!vh::mine(idx++)) {
                continue;
            }
            vh::Rng r = vh::rng_for("rand32", c);
            for (int i = 0; i < per; ++i) {
                const uint64_t n = r.next() & 0xFFFFFFFFULL;
                check_isprime(n);
                check_factor(n);
                if (i % 10 == 0) {
                    check_nextprime(n);
                }
            }
            vh::obs_add("random_32bit_arguments", per);
        }
    }
    //---- primes(n)
    {
        std::vector<uint32_t> ns;
        for (uint32_t n = 0; n <= 600; ++n) {
            ns.push_back(n);
        }
        vh::Rng r = vh::rng_for("primesn");
        const int extra = thorough ? 60 : 12;
        for (int i = 0; i < extra; ++i) {
            ns.push_back(uint32_t(std::exp(r.uni(std::log(600.0), std::log(double(thorough ? (1u << 22) : (1u << 19)))))));
        }
        ns.push_back(65521);
        ns.push_back(65536);
        ns.push_back(1u << 20);
        if (thorough) {
            ns.push_back(1u << 22);
        }
        for (uint32_t n : ns) {
            if (!vh::mine(idx++)) {
                continue;
            }
            check_primes(n);
        }
    }
    //---- the long prime gaps below 2^32 (every maximal gap and every gap above 292): nextprime inside a long composite run
    {
        struct G
        {
            uint32_t p;
            int gap;
        };
        const std::vector<G> gaps = {{1349533, 118},     {1357201, 132},     {2010733, 148},     {4652353, 154},     {17051707, 180},    {20831323, 210},    {47326693, 220},
                                     {122164747, 222},   {189695659, 234},   {191912783, 248},   {387096133, 250},   {436273009, 282},   {1294268491, 288},  {1453168141, 292},
                                     {2300942549u, 320}, {2433630109u, 300}, {3842610773u, 336}, {3917587237u, 300}, {4024713661u, 300}, {4275912661u, 300}};
        for (const auto& g : gaps) {
            if (!vh::mine(idx++)) {
                continue;
            }
            //the table is only a list of places to look: every answer is judged by the Miller-Rabin reference
            for (int64_t n = int64_t(g.p) - 2; n <= int64_t(g.p) + g.gap + 2 && n <= 4294967295LL; ++n) {
                check_nextprime(uint64_t(n));
                check_isprime(uint64_t(n));
            }
            vh::obs_add("long_prime_gaps_walked");
        }
    }
    //---- thorough: isprime for EVERY argument in [2^22, 2^24) against a segmented sieve (a defect confined to a single argument cannot
    //be sampled; the whole 32-bit range is out of reach: one call costs a fresh prime table, ~1e5 calls/s/core near 2^32);
    //nextprime at the start of every gap of 150 or more
    if (thorough) {
        const uint64_t SEG = 1u << 18;
        for (uint64_t base = (1u << 22); base < (1ULL << 24); base += SEG) {
            if (!vh::mine(idx++)) {
                continue;
            }
            std::vector<uint8_t> seg(SEG, 1);
            for (uint32_t p : g_primes) {
                if (uint64_t(p) * p >= base + SEG) {
                    break;
                }
                uint64_t q = std::max<uint64_t>(uint64_t(p) * p, (base + p - 1) / p * p);
                for (; q < base + SEG; q += p) {
                    seg[q - base] = 0;
                }
            }
            uint64_t wrong = 0;
            uint64_t first_wrong = 0;
            uint64_t last_prime = 0;
            for (uint64_t n = base; n < base + SEG; ++n) {
                const bool want = seg[n - base] != 0;
                const bool got = dl::isprime(uint32_t(n));
                if (got != want) {
                    if (!wrong) {
                        first_wrong = n;
                    }
                    ++wrong;
                }
                if (want) {
                    if (last_prime && n - last_prime >= 150) {
                        check_nextprime(last_prime + 1);
                    }
                    last_prime = n;
                }
            }
            vh::count(0xE0000000ULL + base / SEG, true);
            vh::obs_add("exhaustive_isprime_arguments", double(SEG));
            if (wrong) {
                vh::violation(vh::fmt("C15/isprime/wrong/%s", rng_class(first_wrong)),
                              vh::fmt("isprime(%llu) = %d but the segmented sieve says %d (%llu wrong answers in [%llu, %llu))", (unsigned long long)first_wrong, int(!seg[first_wrong - base]), int(seg[first_wrong - base]),
                                      (unsigned long long)wrong, (unsigned long long)base, (unsigned long long)(base + SEG)));
            }
        }
    }
    //---- call histories: the answers must not depend on what was asked before in the same thread (repeated, decreasing and
    //interleaved arguments; a result cached from a larger argument must not leak into a smaller one)
    {
        const int nh = thorough ? 400 : 48;
        for (int hidx = 0; hidx < nh; ++hidx) {
            if (!vh::mine(idx++)) {
                continue;
            }
            vh::Rng r = vh::rng_for("history", hidx);
            const int len = int(r.range(20, 120));
            const uint32_t top = uint32_t(std::exp(r.uni(std::log(50.0), std::log(60000.0))));
            uint32_t prev = 2;
            for (int i = 0; i < len; ++i) {
                uint32_t n;
                switch (r.below(6)) {
                case 0: n = prev; break;                                             //the same argument again
                case 1: n = prev > 0 ? prev - 1 : 0; break;                          //just below the previous one
                case 2: n = g_primes[r.below(std::min<size_t>(g_primes.size(), 6000))]; break;   //a prime
                case 3: n = uint32_t(r.below(top + 1)); break;
                case 4: n = uint32_t(r.below(20)); break;                            //tiny
                default: n = prev + uint32_t(r.below(50)); break;
                }
                n = std::min(n, top * 2 + 100);
                switch (r.below(8)) {
                case 0: check_isprime(n); break;
                case 1: check_factor(n); break;
                case 2: check_nextprime(n); break;
                default: check_primes(n); break;
                }
                prev = n;
            }
            vh::obs_add("call_histories");
        }
    }
    vh::sample("isprime/factor/nextprime/nextpow2/ispow2 for every n in [0,2^18] (quick) / [0,2^22] (thorough) against a sieve; windows of +-512/4096 around 2^16, 2^24, 2^31, 65521^2, 2^32 against Miller-Rabin; e.g. factor(4293001441) = {65521,65521}");
    vh::g.exhaustive = true;
    return vh::finish();
}
