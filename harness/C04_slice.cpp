// C04 - slices select and assign exactly the numpy-designated elements.
// Oracle: a reference of Python's slice semantics restricted by the throw rules of the statement;
// sentinel-filled arrays for writes (exactly the designated positions change, source = snapshot before the call).
#include "dsp.h"
#include <climits>

#include <initializer_list>

using namespace vd;
namespace dl = dsplib;

struct Spec
{
    bool throws{false};
    std::vector<int> idx;
};

static Spec pyslice(int n, long i1, long i2, long step) {
    Spec s;
    if (n == 0 || step == 0 || i1 < -n || i1 > n - 1 || i2 < -n || i2 > n) {
        s.throws = true;
        return s;
    }
    const long a = (i1 < 0) ? (n + i1) : i1;
    const long b = (i2 < 0) ? (n + i2) : i2;
    if ((step < 0 && a < b) || (step > 0 && a > b)) {
        s.throws = true;
        return s;
    }
    if (step > 0) {
        for (long i = a; i < b; i += step) {
            s.idx.push_back(int(i));
        }
    } else {
        for (long i = a; i > b; i += step) {
            s.idx.push_back(int(i));
        }
    }
    return s;
}

template<class T>
struct Elem;
template<>
struct Elem<real_t>
{
    static real_t sentinel(int i) {
        return 1000.0 + i;
    }
    static real_t fresh(int i) {
        return -(5000.0 + i);
    }
    static const char* name() {
        return "real";
    }
};
template<>
struct Elem<cmplx_t>
{
    static cmplx_t sentinel(int i) {
        return {1000.0 + i, -(2000.0 + i)};
    }
    static cmplx_t fresh(int i) {
        return {-(5000.0 + i), 7000.0 + i};
    }
    static const char* name() {
        return "cmplx";
    }
};

template<class T>
static bool eq(const T& a, const T& b) {
    return std::memcmp(&a, &b, sizeof(T)) == 0;
}

template<class T>
static dl::base_array<T> filled(int n) {
    dl::base_array<T> x(n);
    for (int i = 0; i < n; ++i) {
        x[i] = Elem<T>::sentinel(i);
    }
    return x;
}

template<class T>
static bool same(const dl::base_array<T>& a, const std::vector<T>& b) {
    if (a.size() != int(b.size())) {
        return false;
    }
    for (int i = 0; i < a.size(); ++i) {
        if (!eq(a[i], b[i])) {
            return false;
        }
    }
    return true;
}

static std::string desc(const char* tn, int n, long i1, long i2, long st) {
    return vh::fmt("%s n=%d slice(%ld,%ld,%ld)", tn, n, i1, i2, st);
}

//---- reads ---------------------------------------------------------------------------------------------------
template<class T>
static void check_reads(int n, int i1, int i2, int st, bool use_end) {
    using A = dl::base_array<T>;
    const char* tn = Elem<T>::name();
    const Spec sp = pyslice(n, i1, use_end ? n : i2, st);
    A x = filled<T>(n);
    const A x0 = x;
    const A& cx = x;
    std::vector<T> want;
    for (int i : sp.idx) {
        want.push_back(x0[i]);
    }
    const std::string d = desc(tn, n, i1, use_end ? 99999 : i2, st) + (use_end ? " [end placeholder]" : "");
    vh::begin_case("read", "%s", d.c_str());
    vh::Hasher h;
    h.s("read").s(tn).i(n).i(i1).i(use_end ? 1 << 20 : i2).i(st);
    vh::count(h.get(), !sp.throws && !sp.idx.empty());
    const char* cntclass = sp.throws ? "throwing" : (sp.idx.empty() ? "empty" : "nonempty");

    auto mk = [&]() {
        return use_end ? x.slice(i1, dl::indexing::end, st) : x.slice(i1, i2, st);
    };
    auto mkc = [&]() {
        return use_end ? cx.slice(i1, dl::indexing::end, st) : cx.slice(i1, i2, st);
    };

    //throw / no-throw of slice() itself
    const auto oc1 = try_call([&] { (void)mk(); });
    const auto oc2 = try_call([&] { (void)mkc(); });
    if (sp.throws) {
        vh::obs_add("throwing_tuples");
        if (oc1 != Outcome::Threw || oc2 != Outcome::Threw) {
            vh::violation(vh::fmt("C04/not_rejected/%s", tn), d + " must throw but returned a slice");
        }
        return;
    }
    if (oc1 != Outcome::Returned || oc2 != Outcome::Returned) {
        vh::violation(vh::fmt("C04/valid_rejected/%s/%s", tn, cntclass), d + " is valid (python semantics) but slice() threw");
        return;
    }
    vh::obs_add(sp.idx.empty() ? "empty_slices" : "nonempty_slices");

    auto s = mk();
    auto c = mkc();
    if (s.size() != int(want.size()) || c.size() != int(want.size())) {
        vh::violation(vh::fmt("C04/size/%s", tn), d + vh::fmt(" size()=%d/%d expected %zu", s.size(), c.size(), want.size()));
        return;
    }

    auto rd = [&](const char* kind, const std::function<A()>& fn) {
        A got;
        std::string what;
        const auto oc = try_call([&] { got = fn(); }, &what);
        vh::obs_add("reads_judged");
        if (oc != Outcome::Returned) {
            vh::violation(vh::fmt("C04/read_threw/%s/%s/%s", kind, tn, cntclass), d + " read via " + kind + " threw: " + what);
            return;
        }
        if (!same(got, want)) {
            vh::violation(vh::fmt("C04/read_wrong/%s/%s/%s", kind, tn, cntclass), d + " read via " + kind + vh::fmt(" returned %d elements, expected %zu (or wrong values)", got.size(), want.size()));
        }
    };
    rd("array_from_slice", [&] { A a = mk(); return a; });
    rd("array_from_const_slice", [&] { A a = mkc(); return a; });
    rd("deref_slice", [&] { return *mk(); });
    rd("deref_const_slice", [&] { return *mkc(); });
    rd("iterate_slice", [&] {
        std::vector<T> v;
        auto sl = mk();
        for (auto it = sl.begin(); it != sl.end(); ++it) {
            v.push_back(*it);
        }
        return A(v);
    });
    //the other iterator operators: postfix increment, dereference-and-advance, and walking back from end()
    rd("iterate_slice_postfix", [&] {
        std::vector<T> v;
        auto sl = mk();
        for (auto it = sl.begin(); it != sl.end(); it++) {
            v.push_back(*it);
        }
        return A(v);
    });
    rd("iterate_slice_deref_postfix", [&] {
        std::vector<T> v;
        auto sl = mk();
        auto it = sl.begin();
        for (int k = 0; k < sl.size(); ++k) {
            v.push_back(*it++);
        }
        if (it != sl.end()) {
            v.push_back(T{});   //the walk must land on end()
        }
        return A(v);
    });
    rd("iterate_slice_backwards", [&] {
        auto sl = mk();
        std::vector<T> v(size_t(sl.size()));
        auto it = sl.end();
        for (int k = sl.size() - 1; k >= 0; --k) {
            if (k % 2) {
                --it;
            } else {
                it--;
            }
            v[size_t(k)] = *it;
        }
        if (sl.size() > 0 && it != sl.begin()) {
            v.push_back(T{});
        }
        return A(v);
    });
    rd("iterate_const_slice_postfix", [&] {
        std::vector<T> v;
        auto sl = mkc();
        for (auto it = sl.begin(); it != sl.end(); it++) {
            v.push_back(*it);
        }
        return A(v);
    });
    rd("iterate_const_slice", [&] {
        std::vector<T> v;
        auto sl = mkc();
        for (const auto& e : sl) {
            v.push_back(e);
        }
        return A(v);
    });
    rd("copy_of_slice", [&] {
        auto sl = mk();
        dl::slice_t<T> cp(sl);
        A a = cp;
        return a;
    });
    rd("copy_of_const_slice", [&] {
        auto sl = mkc();
        dl::const_slice_t<T> cp(sl);
        A a = cp;
        return a;
    });
    rd("const_slice_from_slice", [&] {
        auto sl = mk();
        dl::const_slice_t<T> cp(sl);
        A a = cp;
        return a;
    });
    if (!eq(x.size(), x0.size()) || !same(x, x0.to_vec())) {
        vh::violation(vh::fmt("C04/read_modified_array/%s", tn), d + " reading changed the array");
    }
}

//---- writes --------------------------------------------------------------------------------------------------
template<class T>
static void expect_array(const std::string& key, const std::string& d, const dl::base_array<T>& x, const std::vector<T>& want) {
    vh::obs_add("writes_judged");
    if (!same(x, want)) {
        int pos = -1;
        for (int i = 0; i < x.size() && i < int(want.size()); ++i) {
            if (!eq(x[i], want[i])) {
                pos = i;
                break;
            }
        }
        vh::violation(key, d + vh::fmt(": array differs from the expected contents (first difference at index %d of %d)", pos, x.size()));
    }
}

template<class T>
static void check_writes(int n, int i1, int i2, int st) {
    using A = dl::base_array<T>;
    const char* tn = Elem<T>::name();
    const Spec sp = pyslice(n, i1, i2, st);
    if (sp.throws) {
        return;
    }
    const int cnt = int(sp.idx.size());
    const std::string d = desc(tn, n, i1, i2, st);
    const A x0 = filled<T>(n);
    vh::Hasher h;
    h.s("write").s(tn).i(n).i(i1).i(i2).i(st);
    vh::count(h.get(), cnt > 0);

    //scalar
    {
        vh::begin_case("write_scalar", "%s", d.c_str());
        A x = x0;
        std::vector<T> want = x0.to_vec();
        const T v = Elem<T>::fresh(7);
        for (int i : sp.idx) {
            want[i] = v;
        }
        x.slice(i1, i2, st) = v;
        expect_array(vh::fmt("C04/write_scalar/%s", tn), d + " = scalar", x, want);
    }
    //array / initializer list / foreign slice of every length relation
    std::vector<int> lens = {cnt, cnt - 1, cnt + 1, 0, 2 * cnt, cnt + 7};
    for (int m : lens) {
        if (m < 0) {
            continue;
        }
        A src(m);
        for (int i = 0; i < m; ++i) {
            src[i] = Elem<T>::fresh(i);
        }
        std::vector<T> want = x0.to_vec();
        if (m == cnt) {
            for (int k = 0; k < cnt; ++k) {
                want[sp.idx[k]] = src[k];
            }
        }
        const char* rel = (m == cnt) ? "equal" : (m < cnt ? "shorter" : "longer");
        //array
        {
            vh::begin_case("write_array", "%s rhs_len=%d", d.c_str(), m);
            A x = x0;
            const auto oc = try_call([&] { x.slice(i1, i2, st) = src; });
            if (m == cnt && oc != Outcome::Returned) {
                vh::violation(vh::fmt("C04/write_array_threw/%s/%s", tn, cnt == 0 ? "empty" : "nonempty"), d + vh::fmt(" = array of equal count %d threw", m));
            } else if (m != cnt && oc != Outcome::Threw) {
                vh::violation(vh::fmt("C04/count_mismatch_not_rejected/array/%s/%s", tn, rel), d + vh::fmt(" (count %d) = array of %d elements did not throw", cnt, m));
            }
            if (m == cnt && oc != Outcome::Returned) {
                //already reported
            } else {
                expect_array(vh::fmt("C04/write_array/%s/%s", tn, rel), d + vh::fmt(" = array[%d]", m), x, want);
            }
        }
        //slice of another array (unit and strided source)
        if (m > 0) {
            vh::begin_case("write_foreign_slice", "%s rhs_len=%d", d.c_str(), m);
            A big(2 * m + 3);
            for (int i = 0; i < big.size(); ++i) {
                big[i] = Elem<T>::sentinel(100 + i);
            }
            for (int k = 0; k < m; ++k) {
                big[1 + 2 * k] = src[k];
            }
            A x = x0;
            const auto oc = try_call([&] { x.slice(i1, i2, st) = big.slice(1, 1 + 2 * m, 2); });
            const A& cbig = big;
            A y = x0;
            const auto oc2 = try_call([&] { y.slice(i1, i2, st) = cbig.slice(1, 1 + 2 * m, 2); });
            if ((m == cnt) != (oc == Outcome::Returned) || (m == cnt) != (oc2 == Outcome::Returned) || (m != cnt && (oc != Outcome::Threw || oc2 != Outcome::Threw))) {
                vh::violation(vh::fmt("C04/foreign_slice_outcome/%s/%s", tn, rel), d + vh::fmt(" (count %d) = strided slice of %d elements: wrong throw behaviour", cnt, m));
            } else {
                expect_array(vh::fmt("C04/write_foreign_slice/%s/%s", tn, rel), d + vh::fmt(" = other.slice(1,%d,2)", 1 + 2 * m), x, want);
                expect_array(vh::fmt("C04/write_foreign_const_slice/%s/%s", tn, rel), d + vh::fmt(" = const other.slice(1,%d,2)", 1 + 2 * m), y, want);
            }
        }
    }
    //initializer lists (compile-time lengths 0..6)
    {
        auto with_list = [&](int m, const std::function<void(A&)>& assign) {
            vh::begin_case("write_initlist", "%s list_len=%d", d.c_str(), m);
            A x = x0;
            std::vector<T> want = x0.to_vec();
            if (m == cnt) {
                for (int k = 0; k < cnt; ++k) {
                    want[sp.idx[k]] = Elem<T>::fresh(k);
                }
            }
            const char* rel = (m == cnt) ? "equal" : (m < cnt ? "shorter" : "longer");
            const auto oc = try_call([&] { assign(x); });
            if (m == cnt && oc != Outcome::Returned) {
                vh::violation(vh::fmt("C04/write_initlist_threw/%s", tn), d + vh::fmt(" = {list of equal count %d} threw", m));
                return;
            }
            if (m != cnt && oc != Outcome::Threw) {
                vh::violation(vh::fmt("C04/count_mismatch_not_rejected/initlist/%s/%s", tn, rel), d + vh::fmt(" (count %d) = {list of %d} did not throw", cnt, m));
            }
            expect_array(vh::fmt("C04/write_initlist/%s/%s", tn, rel), d + vh::fmt(" = {list of %d}", m), x, want);
        };
        const T f0 = Elem<T>::fresh(0), f1 = Elem<T>::fresh(1), f2 = Elem<T>::fresh(2), f3 = Elem<T>::fresh(3), f4 = Elem<T>::fresh(4), f5 = Elem<T>::fresh(5);
        with_list(1, [&](A& x) { x.slice(i1, i2, st) = {f0}; });
        with_list(2, [&](A& x) { x.slice(i1, i2, st) = {f0, f1}; });
        with_list(3, [&](A& x) { x.slice(i1, i2, st) = {f0, f1, f2}; });
        with_list(4, [&](A& x) { x.slice(i1, i2, st) = {f0, f1, f2, f3}; });
        with_list(6, [&](A& x) { x.slice(i1, i2, st) = {f0, f1, f2, f3, f4, f5}; });
        if (n <= 6) {
            //a list much longer than the whole array (the red zone of the heap block is what ASan watches)
            with_list(12, [&](A& x) { x.slice(i1, i2, st) = {f0, f1, f2, f3, f4, f5, f0, f1, f2, f3, f4, f5}; });
        }
    }
}

//---- slice-to-slice inside one array ---------------------------------------------------------------------------
template<class T>
static void check_alias_pairs(int n, uint64_t& idx, vh::Rng* sampler, int sample_mod) {
    using A = dl::base_array<T>;
    const char* tn = Elem<T>::name();
    struct S
    {
        int a, b, st;
        std::vector<int> idx;
    };
    std::vector<S> all;
    for (int a = 0; a < n; ++a) {
        for (int b = 0; b <= n; ++b) {
            for (int st = -5; st <= 5; ++st) {
                if (st == 0) {
                    continue;
                }
                const Spec sp = pyslice(n, a, b, st);
                if (!sp.throws && !sp.idx.empty()) {
                    //canonical: keep one triple per index list
                    bool dup = false;
                    for (const auto& e : all) {
                        if (e.idx == sp.idx) {
                            dup = true;
                            break;
                        }
                    }
                    if (!dup) {
                        all.push_back({a, b, st, sp.idx});
                    }
                }
            }
        }
    }
    const A x0 = filled<T>(n);
    for (const auto& dst : all) {
        for (const auto& src : all) {
            if (dst.idx.size() != src.idx.size()) {
                //unequal element counts inside one array: must be rejected without writing anything
                if (!vh::mine(idx++)) {
                    continue;
                }
                if (sampler != nullptr && sampler->below(sample_mod) != 0) {
                    continue;
                }
                vh::begin_case("alias_pair_unequal", "%s n=%d dst=(%d,%d,%d) src=(%d,%d,%d)", tn, n, dst.a, dst.b, dst.st, src.a, src.b, src.st);
                vh::Hasher h;
                h.s("alias_unequal").s(tn).i(n).i(dst.a).i(dst.b).i(dst.st).i(src.a).i(src.b).i(src.st);
                vh::count(h.get(), true);
                vh::obs_add("alias_pairs_unequal_count");
                const std::string d = vh::fmt("%s n=%d x.slice(%d,%d,%d) [%zu elements] = x.slice(%d,%d,%d) [%zu elements]", tn, n, dst.a, dst.b, dst.st, dst.idx.size(), src.a, src.b, src.st, src.idx.size());
                for (int cs = 0; cs < 2; ++cs) {
                    A x = x0;
                    const A& cx = x;
                    const auto oc = try_call([&] {
                        if (cs) {
                            x.slice(dst.a, dst.b, dst.st) = cx.slice(src.a, src.b, src.st);
                        } else {
                            x.slice(dst.a, dst.b, dst.st) = x.slice(src.a, src.b, src.st);
                        }
                    });
                    if (oc == Outcome::Returned) {
                        vh::violation(vh::fmt("C04/alias_count_mismatch_not_rejected/%s", tn), d + (cs ? " (const source)" : "") + " did not throw");
                    } else if (!bit_equal(x, x0)) {
                        vh::violation(vh::fmt("C04/alias_count_mismatch_wrote/%s", tn), d + (cs ? " (const source)" : "") + " threw but modified the array");
                    }
                }
                continue;
            }
            if (!vh::mine(idx++)) {
                continue;
            }
            if (sampler != nullptr && sampler->below(sample_mod) != 0) {
                continue;
            }
            vh::begin_case("alias_pair", "%s n=%d dst=(%d,%d,%d) src=(%d,%d,%d)", tn, n, dst.a, dst.b, dst.st, src.a, src.b, src.st);
            std::vector<T> want = x0.to_vec();
            for (size_t k = 0; k < dst.idx.size(); ++k) {
                want[dst.idx[k]] = x0[src.idx[k]];
            }
            bool overlap = false;
            for (int i : dst.idx) {
                for (int j : src.idx) {
                    overlap = overlap || (i == j);
                }
            }
            vh::Hasher h;
            h.s("alias").s(tn).i(n).i(dst.a).i(dst.b).i(dst.st).i(src.a).i(src.b).i(src.st);
            vh::count(h.get(), true);
            vh::obs_add(overlap ? "alias_pairs_overlapping" : "alias_pairs_disjoint");
            const std::string d = vh::fmt("%s n=%d x.slice(%d,%d,%d) = x.slice(%d,%d,%d)", tn, n, dst.a, dst.b, dst.st, src.a, src.b, src.st);
            const char* kind = (dst.st == 1 && src.st == 1) ? "unit" : "strided";
            {
                A x = x0;
                const auto oc = try_call([&] { x.slice(dst.a, dst.b, dst.st) = x.slice(src.a, src.b, src.st); });
                if (oc != Outcome::Returned) {
                    vh::violation(vh::fmt("C04/alias_threw/%s/%s", tn, kind), d + " threw");
                } else {
                    expect_array(vh::fmt("C04/alias_slice/%s/%s/%s", tn, kind, overlap ? "overlap" : "disjoint"), d, x, want);
                }
            }
            {
                A x = x0;
                const A& cx = x;
                const auto oc = try_call([&] { x.slice(dst.a, dst.b, dst.st) = cx.slice(src.a, src.b, src.st); });
                if (oc != Outcome::Returned) {
                    vh::violation(vh::fmt("C04/alias_threw/%s/%s", tn, kind), d + " (const source) threw");
                } else {
                    expect_array(vh::fmt("C04/alias_const_slice/%s/%s/%s", tn, kind, overlap ? "overlap" : "disjoint"), d + " (const source)", x, want);
                }
            }
        }
    }
}

template<class T>
static void random_big(vh::Rng& r) {
    const int n = int(std::exp(r.uni(std::log(11.0), std::log(1e5))));
    auto pickidx = [&]() -> int {
        switch (r.below(6)) {
        case 0:
            return int(r.range(-n - 3, -n + 3));
        case 1:
            return int(r.range(n - 3, n + 3));
        case 2:
            return int(r.range(-3, 3));
        default:
            return int(r.range(-n - 3, n + 3));
        }
    };
    const int i1 = pickidx();
    const int i2 = pickidx();
    int st = int(r.range(-5, 5));
    if (r.below(4) == 0) {
        st = int(r.range(-n - 2, n + 2));
    } else if (r.below(5) == 0) {
        //extreme but legal strides: the slice then designates at most one element
        const int ex[10] = {INT_MAX, INT_MAX - 1, INT_MAX - n / 2, 1 << 30, (1 << 30) + n, -INT_MAX, INT_MIN + 2, -(1 << 30), -(1 << 30) - n, INT_MIN};
        st = ex[r.below(10)];
        vh::obs_add("extreme_stride_cases");
    }
    check_reads<T>(n, i1, i2, st, false);
    using A = dl::base_array<T>;
    const Spec sp = pyslice(n, i1, i2, st);
    if (sp.throws) {
        return;
    }
    //scalar + equal/unequal array assignment on a big array
    const std::string d = desc(Elem<T>::name(), n, i1, i2, st);
    vh::begin_case("write_big", "%s", d.c_str());
    const A x0 = filled<T>(n);
    const int cnt = int(sp.idx.size());
    for (int m : {cnt, cnt + 1, (cnt > 0 ? cnt - 1 : 3)}) {
        A src(m);
        for (int i = 0; i < m; ++i) {
            src[i] = Elem<T>::fresh(i);
        }
        std::vector<T> want = x0.to_vec();
        if (m == cnt) {
            for (int k = 0; k < cnt; ++k) {
                want[sp.idx[k]] = src[k];
            }
        }
        A x = x0;
        const auto oc = try_call([&] { x.slice(i1, i2, st) = src; });
        if ((m == cnt) != (oc == Outcome::Returned)) {
            vh::violation(vh::fmt("C04/big_assign_outcome/%s/%s", Elem<T>::name(), cnt == 0 ? "empty" : "nonempty"), d + vh::fmt(" (count %d) = array[%d]: wrong throw behaviour", cnt, m));
        } else {
            expect_array(vh::fmt("C04/write_array_big/%s", Elem<T>::name()), d + vh::fmt(" = array[%d]", m), x, want);
        }
    }
}

//same-array slice-to-slice assignment on big arrays (chunked / vectorised copies only show above some element count)
template<class T>
static void big_alias(vh::Rng& r) {
    using A = dl::base_array<T>;
    const char* tn = Elem<T>::name();
    const int n = int(std::exp(r.uni(std::log(50.0), std::log(3e4))));
    const int sd = int(r.pick(std::vector<int>{1, 1, 2, 3, -1, -2, -3, 5, -5}));
    const int ss = int(r.pick(std::vector<int>{1, 2, 3, -1, -2, -3, 4, -4}));
    const int maxcnt = (n - 1) / std::max(std::abs(sd), std::abs(ss));
    if (maxcnt < 2) {
        return;
    }
    const int cnt = int(r.range(2, maxcnt));
    auto place = [&](int st, int* a, int* b) {
        const int span = (cnt - 1) * std::abs(st);
        const int lo = int(r.range(0, n - 1 - span));
        if (st > 0) {
            *a = lo;
            *b = std::min(n, lo + span + 1);
        } else {
            *a = lo + span;
            *b = lo - 1;   //exclusive stop below the last element; -1 would wrap, handled below
        }
    };
    int da, db, sa, sb;
    place(sd, &da, &db);
    place(ss, &sa, &sb);
    if (db < 0 || sb < 0) {
        return;   //a negative-step slice reaching index 0 cannot be written with a non-negative exclusive stop
    }
    const Spec dsp = pyslice(n, da, db, sd);
    const Spec ssp = pyslice(n, sa, sb, ss);
    if (dsp.throws || ssp.throws || dsp.idx.size() != ssp.idx.size() || dsp.idx.empty()) {
        return;
    }
    vh::begin_case("alias_big", "%s n=%d dst=(%d,%d,%d) src=(%d,%d,%d)", tn, n, da, db, sd, sa, sb, ss);
    const A x0 = filled<T>(n);
    std::vector<T> want = x0.to_vec();
    for (size_t k = 0; k < dsp.idx.size(); ++k) {
        want[dsp.idx[k]] = x0[ssp.idx[k]];
    }
    vh::Hasher h;
    h.s("alias_big").s(tn).i(n).i(da).i(db).i(sd).i(sa).i(sb).i(ss);
    vh::count(h.get(), true);
    vh::obs_add("big_alias_pairs");
    vh::obs_max("big_alias_largest_count", double(dsp.idx.size()));
    const std::string d = vh::fmt("%s n=%d x.slice(%d,%d,%d) = x.slice(%d,%d,%d) (%zu elements)", tn, n, da, db, sd, sa, sb, ss, dsp.idx.size());
    A x = x0;
    const auto oc = try_call([&] { x.slice(da, db, sd) = x.slice(sa, sb, ss); });
    if (oc != Outcome::Returned) {
        vh::violation(vh::fmt("C04/alias_threw/%s/big", tn), d + " threw");
    } else {
        expect_array(vh::fmt("C04/alias_slice_big/%s/%s", tn, dsp.idx.size() > 64 ? "count>64" : "count<=64"), d, x, want);
    }
}

int main(int argc, char** argv) {
    vh::init(argc, argv, "C04");
    const bool thorough = vh::g.thorough();
    uint64_t idx = 0;

    //exhaustive tuples
    for (int n = 0; n <= 10; ++n) {
        for (int i1 = -n - 3; i1 <= n + 3; ++i1) {
            if (!vh::mine(idx++)) {
                continue;
            }
            for (int i2 = -n - 3; i2 <= n + 3; ++i2) {
                for (int st = -5; st <= 5; ++st) {
                    check_reads<real_t>(n, i1, i2, st, false);
                    check_reads<cmplx_t>(n, i1, i2, st, false);
                    check_writes<real_t>(n, i1, i2, st);
                    check_writes<cmplx_t>(n, i1, i2, st);
                }
            }
            for (int st = -5; st <= 5; ++st) {
                check_reads<real_t>(n, i1, 0, st, true);
                check_reads<cmplx_t>(n, i1, 0, st, true);
            }
        }
    }
    vh::sample("exhaustive (n,i1,i2,step): n in 0..10, i1,i2 in [-n-3,n+3], step in [-5,5]; e.g. real n=7 slice(-2,1,-2) -> indices [5,3]");

    //exhaustive aliasing pairs
    const int nal = thorough ? 8 : 6;
    for (int n = 1; n <= nal; ++n) {
        check_alias_pairs<real_t>(n, idx, nullptr, 1);
        check_alias_pairs<cmplx_t>(n, idx, nullptr, 1);
    }
    if (!thorough) {
        //quick: a seeded 1/16 sample of the n=7,8 pairs
        vh::Rng sr = vh::rng_for("aliassample", vh::g.shard);
        check_alias_pairs<real_t>(7, idx, &sr, 16);
        check_alias_pairs<real_t>(8, idx, &sr, 16);
    }
    vh::sample("aliasing pairs: every (dst slice, src slice) on one array (equal counts: copy-first semantics; unequal counts: rejected, nothing written), e.g. n=6 x.slice(0,4,1) = x.slice(2,6,1) and x.slice(5,0,-2) = x.slice(0,6,2)[0:3]");

    //random big tuples
    const double bigscale = atof(vh::opt("bigscale", "1").c_str());
    const int nbig = int((thorough ? 200000 : 10000) * bigscale);
    for (int i = 0; i < nbig; ++i) {
        if (!vh::mine(idx++)) {
            continue;
        }
        vh::Rng r = vh::rng_for("big", i);
        if (i % 2 == 0) {
            random_big<real_t>(r);
        } else {
            random_big<cmplx_t>(r);
        }
    }
    //random same-array pairs on big arrays
    {
        const int cnt = int((thorough ? 40000 : 4000) * bigscale);
        for (int i = 0; i < cnt; ++i) {
            if (!vh::mine(idx++)) {
                continue;
            }
            vh::Rng r = vh::rng_for("bigalias", i);
            if (i % 2 == 0) {
                big_alias<real_t>(r);
            } else {
                big_alias<cmplx_t>(r);
            }
        }
    }
    vh::g.exhaustive = true;
    return vh::finish();
}
