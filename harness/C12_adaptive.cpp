// C12 - adaptive filters report a-priori errors, honour the lock, and converge.
#include "dsp.h"

using namespace vd;
namespace dl = dsplib;

template<class T>
struct El;
template<>
struct El<real_t>
{
    using A = arr_real;
    static C c(real_t v) {
        return {v, 0};
    }
    static real_t rnd(vh::Rng& r, double s = 1.0) {
        return r.gauss() * s;
    }
    static real_t from(const C& v) {
        return double(v.re);
    }
    static bool eq(real_t a, real_t b) {
        return a == b;
    }
    static const char* name() {
        return "real";
    }
};
template<>
struct El<cmplx_t>
{
    using A = arr_cmplx;
    static C c(cmplx_t v) {
        return {v.re, v.im};
    }
    static cmplx_t rnd(vh::Rng& r, double s = 1.0) {
        return {r.gauss() * s * 0.7071, r.gauss() * s * 0.7071};
    }
    static cmplx_t from(const C& v) {
        return {double(v.re), double(v.im)};
    }
    static bool eq(cmplx_t a, cmplx_t b) {
        return a.re == b.re && a.im == b.im;
    }
    static const char* name() {
        return "complex";
    }
};

enum Kind
{
    LMS,
    NLMS,
    RLS
};
static const char* KN[] = {"LMS", "NLMS", "RLS"};

struct Cfg
{
    Kind kind;
    int L;
    double mu;      //step (LMS/NLMS) or forgetting factor (RLS)
    double leak;    //leak (LMS/NLMS) or diagonal load (RLS)
    std::string str() const {
        if (kind == RLS) {
            return vh::fmt("RLS L=%d lambda=%.6g load=%.6g", L, mu, leak);
        }
        return vh::fmt("%s L=%d mu=%.6g leak=%.6g", KN[kind], L, mu, leak);
    }
};

//uniform wrapper
template<class T>
struct Filt
{
    std::shared_ptr<dl::LmsFilter<T>> lms;
    std::shared_ptr<dl::RlsFilter<T>> rls;
    explicit Filt(const Cfg& c) {
        if (c.kind == RLS) {
            rls = std::make_shared<dl::RlsFilter<T>>(c.L, c.mu, c.leak);
        } else {
            lms = std::make_shared<dl::LmsFilter<T>>(c.L, c.mu, c.kind == NLMS ? dl::LmsType::NLMS : dl::LmsType::LMS, c.leak);
        }
    }
    void process(const dl::base_array<T>& x, const dl::base_array<T>& d, dl::base_array<T>& y, dl::base_array<T>& e) {
        if (rls) {
            auto r = rls->process(x, d);
            y = r.y;
            e = r.e;
        } else {
            auto r = lms->process(x, d);
            y = r.y;
            e = r.e;
        }
    }
    dl::base_array<T> coeffs() const {
        return rls ? dl::base_array<T>(rls->coeffs()) : lms->coeffs();
    }
    void lock(bool v) {
        if (rls) {
            rls->set_lock_coeffs(v);
        } else {
            lms->set_lock_coeffs(v);
        }
    }
    bool locked() const {
        return rls ? rls->coeffs_locked() : lms->coeffs_locked();
    }
};

//long double shadow of the documented recursions (coefficients in coeffs() order: c[j] multiplies x[k-j])
struct Shadow
{
    Kind kind;
    int L;
    ld mu, leak;
    CV w;
    std::vector<CV> P;   //RLS
    explicit Shadow(const Cfg& c)
      : kind{c.kind}
      , L{c.L}
      , mu{c.mu}
      , leak{c.leak}
      , w(c.L) {
        if (kind == RLS) {
            P.assign(L, CV(L));
            for (int i = 0; i < L; ++i) {
                P[i][i] = C{leak, 0};
            }
        }
    }
    //u[j] = x[k-j]
    C output(const CV& u) const {
        C y;
        for (int j = 0; j < L; ++j) {
            y = y + w[j] * u[j];
        }
        return y;
    }
    void update(const CV& u, const C& e) {
        if (kind == LMS) {
            for (int j = 0; j < L; ++j) {
                w[j] = w[j] * leak + (e * ref::conj(u[j])) * mu;
            }
        } else if (kind == NLMS) {
            ld pu = 0;
            for (int j = 0; j < L; ++j) {
                pu += ref::abs2(u[j]);
            }
            const ld norm = pu + ref::EPS;
            for (int j = 0; j < L; ++j) {
                w[j] = w[j] * leak + (e * ref::conj(u[j])) * (mu / norm);
            }
        } else {
            //g = P u / (lambda + u^H P u); P = (P - g u^H P)/lambda; w += conj(g) e
            CV Pu(L), uP(L);
            for (int i = 0; i < L; ++i) {
                for (int k = 0; k < L; ++k) {
                    Pu[i] = Pu[i] + P[i][k] * u[k];
                    uP[i] = uP[i] + ref::conj(u[k]) * P[k][i];
                }
            }
            C den{mu, 0};
            for (int i = 0; i < L; ++i) {
                den = den + uP[i] * u[i];
            }
            CV g(L);
            for (int i = 0; i < L; ++i) {
                g[i] = Pu[i] / den;
            }
            for (int i = 0; i < L; ++i) {
                for (int k = 0; k < L; ++k) {
                    P[i][k] = (P[i][k] - g[i] * uP[k]) * (1 / mu);
                }
            }
            for (int i = 0; i < L; ++i) {
                w[i] = w[i] + ref::conj(g[i]) * e;
            }
        }
    }
};

template<class T>
static void trajectory(const Cfg& cfg, vh::Rng& r, int N) {
    using A = dl::base_array<T>;
    const std::string cs = cfg.str() + " " + El<T>::name();
    vh::begin_case("trajectory", "%s N=%d", cs.c_str(), N);
    const std::string kk = vh::fmt("%s/%s", KN[cfg.kind], El<T>::name());
    //unknown system no longer than the filter, white input, small observation noise
    const int ls = int(r.range(1, cfg.L));
    A sys(ls);
    for (int i = 0; i < ls; ++i) {
        sys[i] = El<T>::rnd(r);
    }
    //a bulk delay (leading zero taps) in a third of the systems; with a noise-free desired signal the first errors are then exactly 0
    const int delay = (ls >= 2 && r.below(3) == 0) ? int(r.range(1, ls - 1)) : 0;
    for (int i = 0; i < delay; ++i) {
        sys[i] = T{};
    }
    const bool noise_free = (r.below(2) == 0);
    //input level: the NLMS recursion is exercised far away from unit scale too (LMS keeps unit scale: its stable step depends on it;
    //RLS too: its conditioning depends on load/level^2, and the 1e-7 tracking bound was established for the load range at unit level)
    const double level = (cfg.kind == NLMS && r.below(3) == 0) ? std::pow(10.0, r.uni(-7.0, 3.0)) : 1.0;
    const int lead_silence = (r.below(4) == 0) ? int(r.range(1, 2 * cfg.L)) : 0;
    A x(N), d(N);
    for (int k = 0; k < N; ++k) {
        x[k] = (k < lead_silence) ? T{} : El<T>::rnd(r, level);
    }
    for (int k = 0; k < N; ++k) {
        C acc;
        for (int j = 0; j < ls && j <= k; ++j) {
            acc = acc + El<T>::c(sys[j]) * El<T>::c(x[k - j]);
        }
        d[k] = noise_free ? El<T>::from(acc) : El<T>::from(acc + El<T>::c(El<T>::rnd(r, 0.01 * level)));
    }
    vh::obs_add(level != 1.0 ? "trajectories_away_from_unit_level" : "trajectories_at_unit_level");
    if (delay > 0 && noise_free) {
        vh::obs_add("trajectories_with_exactly_zero_initial_errors");
    }
    //lock schedule on sample indices
    std::vector<bool> locked(N, false);
    {
        bool st = false;
        for (int k = 0; k < N; ++k) {
            if (r.below(40) == 0) {
                st = !st;
            }
            locked[k] = st;
        }
    }
    vh::Hasher hh;
    hh.s(cs).i(N).u64(hash_arr(x));
    vh::count(hh.get(), true);

    Filt<T> fa(cfg);
    Shadow sh(cfg);
    A ya(N), ea(N);
    ld worst_y = 0, worst_w = 0;
    bool failed = false;
    for (int k = 0; k < N && !failed; ++k) {
        fa.lock(locked[k]);
        if (r.below(50) == 0) {
            //a rejected call (len(x) != len(d)) is not input: it must not move the coefficients or the delay line
            A xb(3), db(2), yb, eb;
            for (int i = 0; i < 3; ++i) {
                xb[i] = El<T>::rnd(r, 5.0);
            }
            try {
                fa.process(xb, db, yb, eb);
                vh::violation("C12/size_mismatch_accepted/" + kk, cs + ": process(x[3], d[2]) did not throw");
                return;
            } catch (const std::exception&) {
                vh::obs_add("rejected_calls_between_samples");
            }
        }
        const A cb = fa.coeffs();
        A xi(1), di(1), yo, eo;
        xi[0] = x[k];
        di[0] = d[k];
        fa.process(xi, di, yo, eo);
        if (yo.size() != 1 || eo.size() != 1) {
            vh::violation("C12/count/" + kk, cs + vh::fmt(": a one-sample call returned %d/%d values", yo.size(), eo.size()));
            return;
        }
        ya[k] = yo[0];
        ea[k] = eo[0];
        //e = d - y exactly
        const T want_e = d[k] - yo[0];
        if (!El<T>::eq(eo[0], want_e)) {
            vh::violation("C12/error_identity/" + kk, cs + vh::fmt(": sample %d: e != d - y", k));
            failed = true;
        }
        //a-priori output with the coefficients held before this sample's update
        CV u(cfg.L);
        ld mag = 0;
        C yref;
        for (int j = 0; j < cfg.L; ++j) {
            u[j] = (k - j >= 0) ? El<T>::c(x[k - j]) : C{};
            yref = yref + El<T>::c(cb[j]) * u[j];
            mag += ref::cabs(El<T>::c(cb[j])) * ref::cabs(u[j]);
        }
        const ld ey = ref::cabs(El<T>::c(yo[0]) - yref);
        const ld toly = (cfg.L + 8) * ref::EPS * mag;
        if (mag > 0) {
            worst_y = std::max(worst_y, ey / (ref::EPS * mag));
        }
        if (!(ey <= toly)) {
            vh::violation(vh::fmt("C12/not_a_priori/%s/%s", kk.c_str(), locked[k] ? "locked" : "adapting"),
                          cs + vh::fmt(": sample %d: y is not the output of the coefficients held before the update (|y - c_before.x| = %.3Le, tol %.3Le)", k, ey, toly));
            failed = true;
        }
        const A ca = fa.coeffs();
        if (locked[k]) {
            if (!bit_equal(ca, cb)) {
                vh::violation("C12/lock_ignored/" + kk, cs + vh::fmt(": coefficients changed at sample %d although adaptation is locked", k));
                failed = true;
            }
            vh::obs_add("locked_samples");
        } else {
            //the shadow recursion (long double, own state) must track the library's coefficients
            const C es = El<T>::c(d[k]) - sh.output(u);
            sh.update(u, es);
            ld dn = 0, wn = 0;
            for (int j = 0; j < cfg.L; ++j) {
                dn += ref::abs2(El<T>::c(ca[j]) - sh.w[j]);
                wn += ref::abs2(sh.w[j]);
            }
            const ld rel = sqrtl(dn) / (sqrtl(wn) + 1e-3L);
            worst_w = std::max(worst_w, rel);
            if (!(rel <= 1e-7L)) {
                vh::violation("C12/recursion/" + kk, cs + vh::fmt(": after sample %d the coefficients differ from the long-double reference recursion by %.3Le (relative)", k, rel));
                failed = true;
            }
            vh::obs_add("adapting_samples");
        }
    }
    vh::obs_max("apriori_err_over_eps_mag", double(worst_y));
    vh::obs_max("recursion_rel_dev", double(worst_w));
    if (failed) {
        return;
    }
    //same stream in random frames: identical outputs (the lock is toggled on the same sample indices)
    Filt<T> fb(cfg);
    A yb, eb;
    int pos = 0;
    while (pos < N) {
        int len = std::min(N - pos, int(r.range(1, 37)));
        //do not cross a lock toggle inside a frame
        for (int i = 1; i < len; ++i) {
            if (locked[pos + i] != locked[pos]) {
                len = i;
                break;
            }
        }
        fb.lock(locked[pos]);
        A xi(len), di(len), yo, eo;
        for (int i = 0; i < len; ++i) {
            xi[i] = x[pos + i];
            di[i] = d[pos + i];
        }
        fb.process(xi, di, yo, eo);
        yb |= yo;
        eb |= eo;
        pos += len;
    }
    if (yb.size() != N || diff2(yb, ya) > 1e-12L * (norm2(ya) + 1e-300L) || diff2(eb, ea) > 1e-12L * (norm2(ea) + 1e-300L)) {
        vh::violation("C12/framed_differs/" + kk, cs + ": frame-wise processing gives other y/e than sample-wise processing of the same stream and lock schedule");
    }
    //locked filter behaves as the fixed FIR with coeffs()
    {
        fa.lock(true);
        const A c = fa.coeffs();
        const int M = 50;
        A xs(M), ds(M), yo, eo;
        for (int i = 0; i < M; ++i) {
            xs[i] = El<T>::rnd(r);
            ds[i] = El<T>::rnd(r);
        }
        fa.process(xs, ds, yo, eo);
        bool ok = bit_equal(fa.coeffs(), c) && yo.size() == M;
        for (int k = 0; ok && k < M; ++k) {
            C yref;
            ld mag = 0;
            for (int j = 0; j < cfg.L; ++j) {
                const int idx = k - j;
                const C xv = (idx >= 0) ? El<T>::c(xs[idx]) : ((N + idx >= 0) ? El<T>::c(x[N + idx]) : C{});
                yref = yref + El<T>::c(c[j]) * xv;
                mag += ref::cabs(El<T>::c(c[j])) * ref::cabs(xv);
            }
            ok = ref::cabs(El<T>::c(yo[k]) - yref) <= (cfg.L + 8) * ref::EPS * mag;
        }
        vh::obs_add("locked_fir_checks");
        if (!ok) {
            vh::violation("C12/locked_not_fir/" + kk, cs + ": with adaptation locked the output is not sum_j c_j x[k-j] with c = coeffs(), or coeffs() changed");
        }
    }
}

template<class T>
static void convergence(const Cfg& cfg, vh::Rng& r) {
    using A = dl::base_array<T>;
    const std::string cs = cfg.str() + " " + El<T>::name();
    vh::begin_case("convergence", "%s", cs.c_str());
    const int L = cfg.L;
    int N;
    if (cfg.kind == NLMS) {
        N = int(std::ceil(60.0 * L / (cfg.mu * (2 - cfg.mu))));
    } else {
        //the initial regularisation lambda^N/load still biases the estimate by about lambda^N/(load*sum_{i<N} lambda^i) (relative);
        //run until that is below 3e-4 (misalignment 1e-7), at least 40L+200 samples
        N = 40 * L + 200;
        long double lamN = powl((long double)cfg.mu, N), S = (cfg.mu < 1.0) ? (1 - lamN) / (1 - (long double)cfg.mu) : (long double)N;
        while (lamN / ((long double)cfg.leak * S) > 3e-4L && N < 40000) {
            N += 100;
            lamN = powl((long double)cfg.mu, N);
            S = (cfg.mu < 1.0) ? (1 - lamN) / (1 - (long double)cfg.mu) : (long double)N;
        }
    }
    const int ls = int(r.range(1, L));
    A sys(ls);
    ld sn = 0;
    const int delay = (ls >= 2 && r.below(3) == 0) ? int(r.range(1, ls - 1)) : 0;
    for (int i = 0; i < ls; ++i) {
        sys[i] = (i < delay) ? T{} : El<T>::rnd(r);
        sn += ref::abs2(El<T>::c(sys[i]));
    }
    //NLMS is invariant to the input level (the statement's "white input" has no preferred scale): a third of its runs are far from unit level
    const double level = (cfg.kind == NLMS && r.below(3) == 0) ? std::pow(10.0, r.uni(-7.0, 3.0)) : 1.0;
    A x(N), d(N);
    for (int k = 0; k < N; ++k) {
        x[k] = El<T>::rnd(r, level);
    }
    if (level != 1.0) {
        vh::obs_add("convergence_runs_away_from_unit_level");
    }
    for (int k = 0; k < N; ++k) {
        C acc;
        for (int j = 0; j < ls && j <= k; ++j) {
            acc = acc + El<T>::c(sys[j]) * El<T>::c(x[k - j]);
        }
        d[k] = El<T>::from(acc);
    }
    Filt<T> f(cfg);
    A y, e;
    //fed in a few frames
    int pos = 0;
    while (pos < N) {
        const int len = std::min(N - pos, int(r.range(100, 1500)));
        A xi(len), di(len);
        for (int i = 0; i < len; ++i) {
            xi[i] = x[pos + i];
            di[i] = d[pos + i];
        }
        f.process(xi, di, y, e);
        pos += len;
    }
    const A c = f.coeffs();
    ld dn = 0;
    for (int j = 0; j < L; ++j) {
        const C sj = (j < ls) ? El<T>::c(sys[j]) : C{};
        dn += ref::abs2(El<T>::c(c[j]) - sj);
    }
    const ld mis = dn / sn;
    vh::Hasher hh;
    hh.s("conv").s(cs).u64(hash_arr(x));
    vh::count(hh.get(), true);
    vh::obs_max(std::string("misalignment_") + KN[cfg.kind], double(mis));
    vh::obs_add("convergence_runs");
    if (!(mis < 1e-6L)) {
        vh::violation(vh::fmt("C12/no_convergence/%s/%s", KN[cfg.kind], El<T>::name()), cs + vh::fmt(": after %d noise-free samples the normalised misalignment is %.3Le (>= 1e-6); system length %d", N, mis, ls));
    }
}

//real RLS vs the exponentially weighted, diagonally regularised least-squares solution
static void rls_batch(const Cfg& cfg, vh::Rng& r) {
    const int L = cfg.L;
    const int N = int(r.range(L + 5, 200));
    const std::string cs = cfg.str() + vh::fmt(" N=%d", N);
    vh::begin_case("rls_batch", "%s", cs.c_str());
    arr_real x(N), d(N);
    for (int k = 0; k < N; ++k) {
        x[k] = r.gauss();
        d[k] = r.gauss() + 0.5 * x[k] - (k > 0 ? 0.3 * x[k - 1] : 0.0);
    }
    dl::RlsFilterR f(L, cfg.mu, cfg.leak);
    (void)f.process(x, d);
    const arr_real w = f.coeffs();
    //normal equations in long double
    const ld lam = cfg.mu;
    std::vector<std::vector<ld>> R(L, std::vector<ld>(L + 1, 0));
    for (int k = 0; k < N; ++k) {
        const ld wt = powl(lam, ld(N - 1 - k));
        for (int i = 0; i < L; ++i) {
            const ld ui = (k - i >= 0) ? ld(x[k - i]) : 0;
            for (int j = 0; j < L; ++j) {
                const ld uj = (k - j >= 0) ? ld(x[k - j]) : 0;
                R[i][j] += wt * ui * uj;
            }
            R[i][L] += wt * ui * d[k];
        }
    }
    for (int i = 0; i < L; ++i) {
        R[i][i] += powl(lam, ld(N)) / ld(cfg.leak);
    }
    //gaussian elimination with partial pivoting; track the smallest pivot as a conditioning proxy
    ld minpiv = 1e300L, maxpiv = 0;
    for (int a = 0; a < L; ++a) {
        int piv = a;
        for (int b = a + 1; b < L; ++b) {
            if (fabsl(R[b][a]) > fabsl(R[piv][a])) {
                piv = b;
            }
        }
        std::swap(R[a], R[piv]);
        minpiv = std::min(minpiv, fabsl(R[a][a]));
        maxpiv = std::max(maxpiv, fabsl(R[a][a]));
        for (int b = 0; b < L; ++b) {
            if (b == a) {
                continue;
            }
            const ld fct = R[b][a] / R[a][a];
            for (int c = a; c <= L; ++c) {
                R[b][c] -= fct * R[a][c];
            }
        }
    }
    ld dn = 0, wn = 0;
    for (int i = 0; i < L; ++i) {
        const ld wi = R[i][L] / R[i][i];
        dn += (ld(w[i]) - wi) * (ld(w[i]) - wi);
        wn += wi * wi;
    }
    const ld cond = maxpiv / minpiv;
    const ld tol = 1e-10L * cond * (1 + sqrtl(wn));
    vh::Hasher hh;
    hh.s("batch").s(cs).u64(hash_arr(x));
    vh::count(hh.get(), true);
    vh::obs_max("rls_vs_batch_err_over_tol", double(sqrtl(dn) / tol));
    vh::obs_add("rls_batch_runs");
    if (!(sqrtl(dn) <= tol)) {
        vh::violation("C12/rls_not_least_squares", cs + vh::fmt(": ||w - w_LS|| = %.3Le (tolerance 1e-10*cond*(1+||w||) = %.3Le, cond proxy %.2Le)", sqrtl(dn), tol, cond));
    }
}

int main(int argc, char** argv) {
    vh::init(argc, argv, "C12");
    const bool thorough = vh::g.thorough();
    uint64_t idx = 0;
    std::vector<int> Ls = {1, 2, 3, 4, 5, 6, 7, 8, 9, 10, 11, 12, 13, 14, 15, 16, 17, 20, 24, 31, 32, 33, 48, 64};
    const int reps = thorough ? 2500 : 40;
    for (int L : Ls) {
        for (int rep = 0; rep < reps; ++rep) {
            if (!vh::mine(idx++)) {
                continue;
            }
            vh::Rng r = vh::rng_for("cfg", uint64_t(L) * 100 + rep);
            const int N = (L <= 16) ? int(r.range(200, 500)) : int(r.range(120, 250));
            //LMS: small steps (stability bound ~ 2/(L*power)); with and without leakage
            const Cfg lms{LMS, L, r.uni(0.05, 0.6) / L, rep % 2 ? 1.0 : r.uni(0.9, 0.9999)};
            const Cfg nlms{NLMS, L, r.uni(0.2, 1.8), rep % 2 ? r.uni(0.95, 0.9999) : 1.0};
            const Cfg rls{RLS, L, rep % 3 == 0 ? 1.0 : r.uni(0.9, 1.0), std::pow(10.0, r.uni(-2.0, 4.0))};
            trajectory<real_t>(lms, r, N);
            trajectory<cmplx_t>(lms, r, N);
            trajectory<real_t>(nlms, r, N);
            trajectory<cmplx_t>(nlms, r, N);
            if (L <= 24) {
                trajectory<real_t>(rls, r, N);
                trajectory<cmplx_t>(rls, r, std::min(N, 250));
            }
            //convergence (noise-free, leak = 1, stable ranges of the statement)
            const Cfg cn{NLMS, L, r.uni(0.2, 1.8), 1.0};
            convergence<real_t>(cn, r);
            convergence<cmplx_t>(cn, r);
            if (L <= 33) {
                const Cfg cr{RLS, L, rep % 2 ? 1.0 : r.uni(0.95, 0.9999), std::pow(10.0, r.uni(0.0, 4.0))};
                convergence<real_t>(cr, r);
                if (L <= 16) {
                    convergence<cmplx_t>(cr, r);
                }
            }
            if (L <= 16) {
                const Cfg cb{RLS, L, r.uni(0.9, 1.0), std::pow(10.0, r.uni(-2.0, 4.0))};
                rls_batch(cb, r);
                rls_batch(Cfg{RLS, L, 1.0, std::pow(10.0, r.uni(-2.0, 4.0))}, r);
            }
        }
    }
    vh::sample("trajectory: NLMS L=8 mu=0.9 complex, 350 samples fed one by one: before each sample coeffs() is read, y must equal sum_j c_j x[k-j], e == d-y, and the coefficients must follow the long-double recursion; random lock toggles");
    return vh::finish();
}
