// C16 - sorting, order statistics and rank correlation match their definitions.
#include "dsp.h"

#include <algorithm>
#include <numeric>

using namespace vd;
namespace dl = dsplib;

static arr_real make_content(vh::Rng& r, int n, int kind) {
    arr_real x(n);
    switch (kind) {
    case 0:   //distinct
        for (int i = 0; i < n; ++i) {
            x[i] = r.gauss() * 10 + i * 1e-9;
        }
        break;
    case 1:   //repeated values
        for (int i = 0; i < n; ++i) {
            x[i] = double(r.range(-3, 3));
        }
        break;
    case 2:   //sorted
        for (int i = 0; i < n; ++i) {
            x[i] = i * 0.5 - 3;
        }
        break;
    case 3:   //reversed
        for (int i = 0; i < n; ++i) {
            x[i] = -i * 0.25 + 7;
        }
        break;
    case 4:   //constant
        for (int i = 0; i < n; ++i) {
            x[i] = 2.5;
        }
        break;
    default:   //sorted with plateaus, signed zeros
        for (int i = 0; i < n; ++i) {
            x[i] = (i % 3 == 0) ? -0.0 : double(i / 4);
        }
        std::sort(x.begin(), x.end());
        break;
    }
    return x;
}
static const char* CK[] = {"distinct", "repeated", "sorted", "reversed", "constant", "plateaus"};

static void check_sort(int n, int kind, vh::Rng& r) {
    const arr_real x = make_content(r, n, kind);
    for (int d = 0; d < 2; ++d) {
        const auto dir = d ? dl::Direction::Descend : dl::Direction::Ascend;
        vh::begin_case("sort", "n=%d content=%s dir=%s", n, CK[kind], d ? "descend" : "ascend");
        const arr_real x0 = x;
        const auto res = dl::sort(x, dir);
        const arr_real& s = res.first;
        const dl::arr_int& idx = res.second;
        vh::Hasher hh;
        hh.s("sort").i(n).i(kind).i(d).u64(hash_arr(x));
        vh::count(hh.get(), n > 1);
        const std::string cfg = vh::fmt("sort(x[%d] %s, %s)", n, CK[kind], d ? "descend" : "ascend");
        bool ok = (s.size() == n && idx.size() == n && bit_equal(x, x0));
        std::string why = "size or input modified";
        std::vector<int> seen(n, 0);
        for (int i = 0; ok && i < n; ++i) {
            if (idx[i] < 0 || idx[i] >= n || seen[idx[i]]++) {
                ok = false;
                why = vh::fmt("index vector is not a permutation (entry %d = %d)", i, idx[i]);
                break;
            }
            if (std::memcmp(&s[i], &x[idx[i]], sizeof(double)) != 0) {
                ok = false;
                why = vh::fmt("sorted[%d]=%.17g != x[idx[%d]=%d]=%.17g", i, s[i], i, idx[i], x[idx[i]]);
                break;
            }
            if (i > 0 && (d ? (s[i] > s[i - 1]) : (s[i] < s[i - 1]))) {
                ok = false;
                why = vh::fmt("not ordered at position %d: %.17g after %.17g", i, s[i], s[i - 1]);
                break;
            }
        }
        if (!ok) {
            vh::violation(vh::fmt("C16/sort/%s/%s", d ? "descend" : "ascend", CK[kind]), cfg + ": " + why);
        }
        const bool iss = dl::issorted(s, dir);
        if (!iss) {
            vh::violation("C16/issorted/false_on_sorted", cfg + ": issorted() is false on the output of sort()");
        }
    }
}

static double brute_median(std::vector<double> w) {
    std::sort(w.begin(), w.end());
    const int n = int(w.size());
    return (n % 2) ? w[n / 2] : (w[n / 2] + w[n / 2 - 1]) / 2;
}

static void check_median(int n, int kind, vh::Rng& r) {
    const arr_real x = make_content(r, n, kind);
    vh::begin_case("median", "n=%d content=%s", n, CK[kind]);
    const double got = dl::median(x);
    const double want = brute_median(x.to_vec());
    vh::Hasher hh;
    hh.s("median").i(n).i(kind).u64(hash_arr(x));
    vh::count(hh.get(), true);
    if (!(got == want)) {
        vh::violation(vh::fmt("C16/median/%s", n % 2 ? "odd" : "even"), vh::fmt("median(x[%d] %s) = %.17g, brute force %.17g", n, CK[kind], got, want));
    }
}

//median of samples drawn from a small alphabet (many ties), in random order
static void check_median_ties(int n, int alphabet, vh::Rng& r) {
    arr_real x(n);
    for (int i = 0; i < n; ++i) {
        x[i] = double(r.below(alphabet)) * 0.5 - 1.0;
    }
    vh::begin_case("median_ties", "n=%d alphabet=%d", n, alphabet);
    const arr_real x0 = x;
    const double got = dl::median(x);
    const double want = brute_median(x.to_vec());
    vh::Hasher hh;
    hh.s("median_ties").i(n).i(alphabet).u64(hash_arr(x));
    vh::count(hh.get(), true);
    vh::obs_add("median_tied_inputs");
    if (!(got == want) || !bit_equal(x, x0)) {
        vh::violation(vh::fmt("C16/median/%s", n % 2 ? "odd" : "even"), vh::fmt("median(x[%d], values from an alphabet of %d) = %.17g, brute force %.17g (or input modified)", n, alphabet, got, want));
    }
}

static void check_median_filter(int order, int kind, int N, vh::Rng& r) {
    const double init = (kind % 2) ? 0.0 : r.uni(-2, 2);
    arr_real x = make_content(r, N, kind);
    if (kind == 2 || kind == 3) {
        //add jitter so that sorted content still moves the window
        for (int i = 0; i < N; ++i) {
            x[i] += 3 * std::sin(i * 0.7);
        }
    }
    vh::begin_case("median_filter", "order=%d content=%s N=%d init=%.3f", order, CK[kind], N, init);
    dl::MedianFilter f(order, init);
    arr_real y;
    int pos = 0;
    while (pos < N) {
        const int len = std::min(N - pos, int(r.range(1, 3 * order)));
        arr_real in(len);
        for (int i = 0; i < len; ++i) {
            in[i] = x[pos + i];
        }
        y |= f.process(in);
        pos += len;
    }
    vh::Hasher hh;
    hh.s("mf").i(order).i(kind).i(N).u64(hash_arr(x));
    vh::count(hh.get(), true);
    const std::string cfg = vh::fmt("MedianFilter(order=%d, init=%.17g) on x[%d] %s", order, init, N, CK[kind]);
    if (y.size() != N || f.order() != order) {
        vh::violation("C16/median_filter/count", cfg + vh::fmt(": %d outputs, order()=%d", y.size(), f.order()));
        return;
    }
    for (int i = 0; i < N; ++i) {
        std::vector<double> w(order);
        for (int k = 0; k < order; ++k) {
            const int j = i - k;
            w[k] = (j >= 0) ? x[j] : init;
        }
        const double want = brute_median(w);
        if (!(y[i] == want)) {
            vh::violation(vh::fmt("C16/median_filter/value/%s/%s", order % 2 ? "odd_order" : "even_order", CK[kind]),
                          cfg + vh::fmt(": output %d is %.17g, median of the last %d samples is %.17g", i, y[i], order, want));
            return;
        }
    }
    vh::obs_add("median_filter_outputs", N);
    //medfilt: zero padded, centred
    {
        const int M = std::min(N, 400);
        arr_real xs(M);
        for (int i = 0; i < M; ++i) {
            xs[i] = x[i];
        }
        arr_real xin = xs;
        const arr_real m = dl::medfilt(xin, order);
        const int n1 = order / 2;
        bool ok = (m.size() == M) && bit_equal(xin, xs);
        int bad = -1;
        double wantv = 0;
        for (int i = 0; ok && i < M; ++i) {
            std::vector<double> w(order);
            for (int k = 0; k < order; ++k) {
                const int j = i - n1 + k;
                w[k] = (j >= 0 && j < M) ? xs[j] : 0.0;
            }
            wantv = brute_median(w);
            if (!(m[i] == wantv)) {
                ok = false;
                bad = i;
            }
        }
        vh::obs_add("medfilt_calls");
        if (!ok) {
            vh::violation(vh::fmt("C16/medfilt/%s", order % 2 ? "odd_order" : "even_order"),
                          vh::fmt("medfilt(x[%d] %s, %d): output %d = %.17g, median of the zero-padded centred window = %.17g (or wrong length %d / input modified)", M, CK[kind], order, bad,
                                  bad >= 0 ? m[bad] : 0.0, wantv, m.size()));
        }
    }
}

//medfilt on inputs shorter than, equal to and a little longer than the window (the zero padding then owns part or most of every window)
static void check_medfilt_short(int order, int len, vh::Rng& r) {
    vh::begin_case("medfilt_short", "order=%d len=%d", order, len);
    for (int kind = 0; kind < 3; ++kind) {
        arr_real xs(len);
        for (int i = 0; i < len; ++i) {
            const double g = r.gauss();
            xs[i] = (kind == 0) ? g : ((kind == 1) ? std::fabs(g) + 0.5 : -std::fabs(g) - 0.5);   //mixed signs, all positive, all negative
        }
        arr_real xin = xs;
        const arr_real m = dl::medfilt(xin, order);
        vh::Hasher h;
        h.s("medfilt_short").i(order).i(len).i(kind).u64(hash_arr(xs));
        vh::count(h.get(), true);
        vh::obs_add("medfilt_short_inputs");
        bool ok = (m.size() == len) && bit_equal(xin, xs);
        int bad = -1;
        double wantv = 0;
        const int n1 = order / 2;
        for (int i = 0; ok && i < len; ++i) {
            std::vector<double> w(order);
            for (int k = 0; k < order; ++k) {
                const int j = i - n1 + k;
                w[k] = (j >= 0 && j < len) ? xs[j] : 0.0;
            }
            wantv = brute_median(w);
            if (!(m[i] == wantv)) {
                ok = false;
                bad = i;
            }
        }
        if (!ok) {
            vh::violation(vh::fmt("C16/medfilt/%s", order % 2 ? "odd_order" : "even_order"),
                          vh::fmt("medfilt(x[%d] (%s), %d): output %d = %.17g, median of the zero-padded centred window = %.17g (or wrong length %d / input modified)", len,
                                  kind == 0 ? "mixed signs" : (kind == 1 ? "all positive" : "all negative"), order, bad, bad >= 0 ? m[bad] : 0.0, wantv, m.size()));
        }
    }
}

//---- correlation references (tie-free data) -----------------------------------------------------------------
static ld pearson_ref(const arr_real& x, const arr_real& y, ld* kappa) {
    const int n = x.size();
    ld mx = 0, my = 0;
    for (int i = 0; i < n; ++i) {
        mx += x[i];
        my += y[i];
    }
    mx /= n;
    my /= n;
    ld sxy = 0, sxx = 0, syy = 0;
    for (int i = 0; i < n; ++i) {
        sxy += (x[i] - mx) * (y[i] - my);
        sxx += (x[i] - mx) * (x[i] - mx);
        syy += (y[i] - my) * (y[i] - my);
    }
    if (kappa != nullptr) {
        *kappa = std::max(1 + mx * mx / (sxx / n), 1 + my * my / (syy / n));
    }
    return sxy / sqrtl(sxx * syy);
}

static std::vector<ld> ranks(const arr_real& x) {
    const int n = x.size();
    std::vector<ld> rk(n);
    for (int i = 0; i < n; ++i) {
        int c = 0;
        for (int j = 0; j < n; ++j) {
            c += (x[j] < x[i]);
        }
        rk[i] = c;
    }
    return rk;
}

static ld spearman_ref(const arr_real& x, const arr_real& y) {
    const auto rx = ranks(x);
    const auto ry = ranks(y);
    arr_real a(x.size()), b(x.size());
    for (int i = 0; i < x.size(); ++i) {
        a[i] = double(rx[i]);
        b[i] = double(ry[i]);
    }
    return pearson_ref(a, b, nullptr);
}

static ld kendall_ref(const arr_real& x, const arr_real& y) {
    const int n = x.size();
    long long nc = 0, nd = 0;
    for (int i = 0; i < n; ++i) {
        for (int j = i + 1; j < n; ++j) {
            const double s = (x[i] - x[j]) * (y[i] - y[j]);
            if (s > 0) {
                ++nc;
            } else if (s < 0) {
                ++nd;
            }
        }
    }
    return ld(nc - nd) / ld(nc + nd);
}

static void check_corr(const arr_real& x, const arr_real& y, const std::string& what, int expect_sign) {
    const int n = x.size();
    vh::begin_case("corr", "%s n=%d", what.c_str(), n);
    vh::Hasher hh;
    hh.s("corr").s(what).u64(hash_arr(x)).u64(hash_arr(y));
    vh::count(hh.get(), true);
    ld kappa = 1;
    const ld pr = pearson_ref(x, y, &kappa);
    const ld sr = spearman_ref(x, y);
    const ld kr = kendall_ref(x, y);
    struct T
    {
        const char* name;
        dl::Correlation c;
        ld want;
        ld tol;
    };
    const T tests[3] = {{"pearson", dl::Correlation::Pearson, pr, 16 * n * ref::EPS * kappa}, {"spearman", dl::Correlation::Spearman, sr, 64 * n * ref::EPS}, {"kendall", dl::Correlation::Kendall, kr, 8 * ref::EPS}};
    for (const auto& t : tests) {
        const double a = dl::corr(x, y, t.c);
        const double b = dl::corr(y, x, t.c);
        const std::string cfg = vh::fmt("corr(%s, n=%d, %s)", what.c_str(), n, t.name);
        vh::obs_max(std::string("corr_err_over_tol_") + t.name, double(fabsl(ld(a) - t.want) / t.tol));
        if (!(fabsl(ld(a) - t.want) <= t.tol)) {
            vh::violation(vh::fmt("C16/corr/value/%s", t.name), cfg + vh::fmt(" = %.17g, definition gives %.17Lg (tolerance %.3Le)", a, t.want, t.tol));
        }
        if (!(fabsl(ld(a) - ld(b)) <= 2 * t.tol)) {
            vh::violation(vh::fmt("C16/corr/asymmetric/%s", t.name), cfg + vh::fmt(": corr(x,y)=%.17g but corr(y,x)=%.17g", a, b));
        }
        if (!(a >= -1 - double(t.tol) && a <= 1 + double(t.tol))) {
            vh::violation(vh::fmt("C16/corr/range/%s", t.name), cfg + vh::fmt(" = %.17g outside [-1,1]", a));
        }
        if (expect_sign != 0 && !(fabsl(ld(a) - expect_sign) <= t.tol)) {
            vh::violation(vh::fmt("C16/corr/monotone/%s", t.name), cfg + vh::fmt(" = %.17g for a strictly %s relation, expected %d", a, expect_sign > 0 ? "increasing" : "decreasing", expect_sign));
        }
    }
    vh::obs_add("corr_pairs");
}

int main(int argc, char** argv) {
    vh::init(argc, argv, "C16");
    const bool thorough = vh::g.thorough();
    uint64_t idx = 0;
    //sort / median over lengths 1..2000
    const int full = thorough ? 4000 : 400;
    const int residue = int(vh::rng_for("residue").below(10));
    for (int n = 1; n <= 4000; ++n) {
        if (!(n <= full || n % 10 == residue)) {
            continue;
        }
        if (!vh::mine(idx++)) {
            continue;
        }
        vh::Rng r = vh::rng_for("sort", n);
        for (int k = 0; k < 6; ++k) {
            check_sort(n, k, r);
            check_median(n, k, r);
        }
        if (n >= 3) {
            const int reps = thorough ? 16 : 3;
            for (int a : {2, 3, 5, 8, std::max(2, n / 4)}) {
                for (int t = 0; t < reps; ++t) {
                    check_median_ties(n, a, r);
                }
            }
        }
    }
    vh::sample("sort/median: every length 1..4000 (quick: 1..400 + a residue class) x content {distinct, repeated, sorted, reversed, constant, plateaus with signed zeros} x {ascend, descend}");
    //median filters: orders 3..64
    for (int order = 3; order <= (thorough ? 160 : 64); ++order) {
        if (!vh::mine(idx++)) {
            continue;
        }
        vh::Rng r = vh::rng_for("mf", order);
        for (int k = 0; k < 6; ++k) {
            check_median_filter(order, k, (k < 2) ? (thorough ? 30000 : 2500) : (thorough ? 3000 : 600), r);
        }
    }
    //medfilt on short inputs: every order 3..64 x every length 1..80
    for (int order = 3; order <= 64; ++order) {
        if (!vh::mine(idx++)) {
            continue;
        }
        vh::Rng r = vh::rng_for("mfshort", order);
        for (int len = 1; len <= 80; ++len) {
            check_medfilt_short(order, len, r);
        }
    }
    vh::sample("MedianFilter/medfilt: orders 3..64 odd and even, streams of 2500/10000 samples in random frames, against a brute-force window median");
    //rank correlation: all permutations of length <= 7
    for (int n = 2; n <= (thorough ? 8 : 7); ++n) {
        std::vector<int> perm(n);
        std::iota(perm.begin(), perm.end(), 0);
        uint64_t pc = 0;
        do {
            if (!vh::mine(idx + (pc++ % 64))) {
                continue;
            }
            arr_real x(n), y(n);
            for (int i = 0; i < n; ++i) {
                x[i] = i * 1.5 - 2;
                y[i] = perm[i] * 0.7 + 0.1;
            }
            bool inc = true, dec = true;
            for (int i = 1; i < n; ++i) {
                inc = inc && perm[i] > perm[i - 1];
                dec = dec && perm[i] < perm[i - 1];
            }
            check_corr(x, y, vh::fmt("permutation of %d", n), 0);
            {
                //the same pairs listed in the opposite order (x descending)
                arr_real xr(n), yr(n);
                for (int i = 0; i < n; ++i) {
                    xr[i] = x[n - 1 - i];
                    yr[i] = y[n - 1 - i];
                }
                check_corr(xr, yr, vh::fmt("permutation of %d, pairs in reverse order", n), 0);
            }
            if (inc || dec) {
                //identity / reversal are linear in x: all three coefficients are +-1
                check_corr(x, y, vh::fmt("monotone permutation of %d", n), inc ? 1 : -1);
            }
        } while (std::next_permutation(perm.begin(), perm.end()));
        idx += 64;
    }
    //random pairs to n = 2000
    {
        const int cnt = thorough ? 30000 : 480;
        for (int t = 0; t < cnt; ++t) {
            if (!vh::mine(idx++)) {
                continue;
            }
            vh::Rng r = vh::rng_for("corr", t);
            //a few fixed large sizes (integer overflow in rank formulas starts around n^3 > 2^31, i.e. n = 1291) plus random ones
            const int fixed_n[6] = {1290, 1291, 1292, 1625, 1999, 2000};
            const int n = (t < 6) ? fixed_n[t] : ((t % 10 == 0) ? int(r.range(500, 2000)) : int(r.range(3, 300)));
            arr_real x(n), y(n);
            const double rho = r.uni(-1, 1);
            const double mux = r.uni(-5, 5), muy = r.uni(-5, 5);
            for (int i = 0; i < n; ++i) {
                const double a = r.gauss(), b = r.gauss();
                x[i] = mux + a;
                y[i] = muy + rho * a + std::sqrt(1 - rho * rho) * b;
            }
            check_corr(x, y, "gaussian pair", 0);
            {
                //correlation coefficients do not depend on the units of either sample: the same pair on independent scales 1e-60..1e60 (squares and cross products stay representable)
                const double sx = std::pow(10.0, r.uni(-60, 60));
                const double sy = std::pow(10.0, r.uni(-60, 60));
                check_corr(x * sx, y * sy, "gaussian pair on independent scales", 0);
            }
            //shuffled x order must not matter for the pair; a random permutation applied to both
            //strictly monotone non-linear relations: rank coefficients are exactly +-1
            arr_real z(n);
            for (int i = 0; i < n; ++i) {
                z[i] = std::exp(0.3 * x[i]) + 1;
            }
            vh::begin_case("corr_monotone", "n=%d", n);
            for (auto c : {dl::Correlation::Spearman, dl::Correlation::Kendall}) {
                const double up = dl::corr(x, z, c);
                const double dn = dl::corr(x, -z, c);
                if (!(std::fabs(up - 1) <= 64 * n * ref::EPS) || !(std::fabs(dn + 1) <= 64 * n * ref::EPS)) {
                    vh::violation(vh::fmt("C16/corr/monotone/%s", c == dl::Correlation::Spearman ? "spearman" : "kendall"),
                                  vh::fmt("x (random order, n=%d) vs exp(0.3x)+1: %.17g (expected 1), vs the negated: %.17g (expected -1)", n, up, dn));
                }
            }
            //linear relation: Pearson exactly +-1
            arr_real lin(n);
            for (int i = 0; i < n; ++i) {
                lin[i] = 3 * x[i] - 7;
            }
            ld kappa = 1;
            (void)pearson_ref(x, lin, &kappa);
            const double pl = dl::corr(x, lin);
            const double pm = dl::corr(x, -lin);
            if (!(std::fabs(pl - 1) <= 16 * n * ref::EPS * double(kappa)) || !(std::fabs(pm + 1) <= 16 * n * ref::EPS * double(kappa))) {
                vh::violation("C16/corr/monotone/pearson", vh::fmt("x vs 3x-7 (n=%d): %.17g, vs the negated: %.17g", n, pl, pm));
            }
        }
    }
    vh::sample("corr: all permutations of length <= 7 (thorough: 8), pairs listed in both orders (Pearson/Spearman/Kendall vs O(n^2) long-double definitions, symmetry, range), random Gaussian pairs to n=2000, strictly monotone relations in random order");
    vh::g.exhaustive = true;
    return vh::finish();
}
