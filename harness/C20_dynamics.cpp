// C20 - dynamics processors never amplify, follow their static curves, and settle.
#include "dsp.h"

using namespace vd;
namespace dl = dsplib;

//the gain is computed in the dB domain (T + (x-T)/R - x ...): its rounding error is a few ulp of the *level* (up to ~1e-13 dB for
//levels of hundreds of dB), i.e. up to ~1e-14 relative in the linear gain; "gain in [0,1]" is judged with this slack
static const double GAIN_SLACK = 1e-12;

//static characteristic in dB (long double); R = 0 means limiter
static ld curve(ld x, ld T, ld W, ld R) {
    const ld invR = (R > 0) ? 1 / R : 0;
    if (x < T - W / 2 || (W == 0 && x < T)) {
        return x;
    }
    if (x > T + W / 2 || W == 0) {
        return T + (x - T) * invR;
    }
    return x + (invR - 1) * (x - T + W / 2) * (x - T + W / 2) / (2 * W);
}

struct DynCfg
{
    int fs;
    double T;
    int R;
    double W;
    double at, rt;
};

static arr_real levels_to_signal(const std::vector<double>& db, vh::Rng& r) {
    arr_real x(int(db.size()));
    for (size_t i = 0; i < db.size(); ++i) {
        x[int(i)] = (r.coin() ? 1.0 : -1.0) * std::pow(10.0, db[i] / 20);
    }
    return x;
}

static void check_static(const DynCfg& c, bool limiter, vh::Rng& r, bool thorough) {
    const std::string cfg = limiter ? vh::fmt("Limiter(fs=%d, T=%.3f, W=%.3f, attack=0, release=0)", c.fs, c.T, c.W) : vh::fmt("Compressor(fs=%d, T=%.3f, R=%d, W=%.3f, attack=0, release=0)", c.fs, c.T, c.R, c.W);
    vh::begin_case(limiter ? "limiter_static" : "compressor_static", "%s", cfg.c_str());
    //input levels: -100..+20 dB coarse, 0.01 dB grid around the knee edges
    std::vector<double> db;
    const double step = thorough ? 0.25 : 1.0;
    for (double v = -100; v <= 20; v += step) {
        db.push_back(v);
    }
    for (double e : {c.T - c.W / 2, c.T + c.W / 2, c.T}) {
        for (int k = -150; k <= 150; ++k) {
            db.push_back(e + 0.01 * k);
        }
        for (int k = -5; k <= 5; ++k) {
            db.push_back(e + 1e-7 * k);
        }
    }
    std::sort(db.begin(), db.end());
    const arr_real x = levels_to_signal(db, r);
    arr_real out, gain;
    if (limiter) {
        dl::Limiter l(c.fs, c.T, c.W, 0.0, 0.0);
        auto res = l.process(x);
        out = res.out;
        gain = res.gain;
    } else {
        dl::Compressor p(c.fs, c.T, c.R, c.W, 0.0, 0.0);
        auto res = p.process(x);
        out = res.out;
        gain = res.gain;
    }
    vh::Hasher hh;
    hh.s(cfg);
    vh::count(hh.get(), true);
    const char* kind = limiter ? "limiter" : "compressor";
    const char* kcls = (c.W == 0) ? "hard_knee" : ((limiter || c.R == 1) ? "soft_knee" : "soft_knee_ratio>1");
    ld prev_out = -1e9;
    double prev_in = -1e9;
    for (int i = 0; i < x.size(); ++i) {
        const ld xin = 20 * log10l(fabsl(ld(x[i])));
        const ld want = curve(xin, c.T, c.W, limiter ? 0 : c.R);
        const ld got = 20 * log10l(fabsl(ld(out[i])));
        const ld dev = fabsl(got - want);
        vh::obs_max(std::string("static_curve_dev_db_") + kind, double(dev));
        if (!(gain[i] >= 0 && gain[i] <= 1 + GAIN_SLACK)) {
            vh::violation(vh::fmt("C20/%s/gain_range", kind), cfg + vh::fmt(": gain %.17g for an input level of %.4Lf dB", gain[i], xin));
            return;
        }
        if (!(dev <= 1e-9L)) {
            const char* where = (xin < c.T - c.W / 2) ? "below_knee" : ((xin > c.T + c.W / 2) ? "above_knee" : "inside_knee");
            vh::violation(vh::fmt("C20/%s/static_curve/%s/%s", kind, kcls, where), cfg + vh::fmt(": input %.6Lf dB -> output %.9Lf dB, static characteristic %.9Lf dB (deviation %.3Le dB)", xin, got, want, dev));
            return;
        }
        //monotone and continuous along the sorted level grid
        if (db[i] > prev_in) {
            if (got < prev_out - 1e-9L) {
                vh::violation(vh::fmt("C20/%s/not_monotone/%s", kind, kcls), cfg + vh::fmt(": output level falls from %.9Lf to %.9Lf dB when the input rises from %.7f to %.7f dB", prev_out, got, prev_in, db[i]));
                return;
            }
            if (db[i] - prev_in <= 1.5e-7 && fabsl(got - prev_out) > 1e-6L) {
                vh::violation(vh::fmt("C20/%s/discontinuous/%s", kind, kcls), cfg + vh::fmt(": output level jumps by %.3Le dB across an input step of %.1e dB at %.7f dB", fabsl(got - prev_out), db[i] - prev_in, db[i]));
                return;
            }
        }
        prev_out = got;
        prev_in = db[i];
    }
    vh::obs_add("static_levels_judged", x.size());
}

static void check_arbitrary(const DynCfg& c, vh::Rng& r, int N) {
    //noise, bursts, steps, silence
    arr_real x(N);
    double lev = 1.0;
    for (int i = 0; i < N; ++i) {
        if (r.below(500) == 0) {
            lev = std::pow(10.0, r.uni(-5, 1.5));
        }
        const uint64_t m = r.below(200);
        x[i] = (m == 0) ? 0.0 : ((m < 3) ? lev * 30 * r.gauss() : lev * r.gauss());
    }
    const std::string cfg = vh::fmt("fs=%d T=%.2f R=%d W=%.2f attack=%.4f release=%.4f", c.fs, c.T, c.R, c.W, c.at, c.rt);
    vh::begin_case("arbitrary", "%s N=%d", cfg.c_str(), N);
    vh::Hasher hh;
    hh.s("arb").s(cfg).u64(hash_arr(x));
    vh::count(hh.get(), true);
    auto range_ok = [&](const char* kind, const arr_real& gain, const arr_real& out) {
        for (int i = 0; i < N; ++i) {
            if (!(gain[i] >= 0 && gain[i] <= 1 + GAIN_SLACK) || !std::isfinite(out[i])) {
                vh::violation(vh::fmt("C20/%s/gain_range", kind), vh::fmt("%s %s: gain %.17g at sample %d (input %.6g)", kind, cfg.c_str(), gain[i], i, x[i]));
                return;
            }
            if (std::fabs(out[i]) > std::fabs(x[i]) * (1 + GAIN_SLACK)) {
                vh::violation(vh::fmt("C20/%s/amplifies", kind), vh::fmt("%s %s: |out| %.17g > |in| %.17g at sample %d", kind, cfg.c_str(), std::fabs(out[i]), std::fabs(x[i]), i));
                return;
            }
        }
    };
    {
        dl::Compressor p(c.fs, c.T, c.R, c.W, c.at, c.rt);
        auto res = p.process(x);
        range_ok("compressor", res.gain, res.out);
    }
    {
        dl::Limiter l(c.fs, c.T, c.W, c.at, c.rt);
        auto res = l.process(x);
        range_ok("limiter", res.gain, res.out);
    }
    {
        dl::NoiseGate g(c.fs, std::max(-140.0, c.T - 30), c.at, c.rt, c.at * 0.5);
        auto res = g.process(x);
        range_ok("noisegate", res.gain, res.out);
    }
    //limiter with zero attack never exceeds its threshold
    {
        dl::Limiter l(c.fs, c.T, c.W, 0.0, c.rt);
        auto res = l.process(x);
        const double ceil_lin = std::pow(10.0, c.T / 20);
        for (int i = 0; i < N; ++i) {
            if (!(std::fabs(res.out[i]) <= ceil_lin * (1 + 1e-12))) {
                vh::violation("C20/limiter/ceiling", vh::fmt("Limiter(%s, attack=0): |out| = %.12g exceeds the threshold %.12g at sample %d (input %.6g)", cfg.c_str(), std::fabs(res.out[i]), ceil_lin, i, x[i]));
                break;
            }
        }
        vh::obs_add("limiter_ceiling_samples", N);
    }
}

//10-90 % transition time of the gain (in the domain the processor smooths in) after a level step
static void check_timing(const DynCfg& c, vh::Rng& r) {
    if (c.at <= 0 || c.rt <= 0) {
        return;
    }
    const std::string cfg = vh::fmt("Compressor/Limiter(fs=%d, T=%.2f, R=%d, W=0, attack=%.4f s, release=%.4f s) fed in random frames", c.fs, c.T, c.R, c.at, c.rt);
    vh::begin_case("timing", "%s", cfg.c_str());
    const int na = int(c.fs * c.at), nr = int(c.fs * c.rt);
    const int N0 = 50, N1 = 12 * na + 100, N2 = 12 * nr + 100;
    const double lo = std::pow(10.0, (c.T - 20) / 20), hi = std::pow(10.0, std::min(20.0, c.T + 25) / 20);
    arr_real x(N0 + N1 + N2);
    for (int i = 0; i < x.size(); ++i) {
        x[i] = (i < N0 || i >= N0 + N1) ? lo : hi;
    }
    //the stream is fed in random frames: the time constants belong to the stream, not to one call
    const bool use_limiter = r.coin();
    dl::Compressor p(c.fs, c.T, c.R, 0.0, c.at, c.rt);
    dl::Limiter lim(c.fs, c.T, 0.0, c.at, c.rt);
    arr_real gain_all;
    {
        int pos = 0;
        while (pos < x.size()) {
            const int len = std::min(x.size() - pos, int(r.range(1, std::max(2, (na + nr) / 3))));
            arr_real fr(len);
            for (int i = 0; i < len; ++i) {
                fr[i] = x[pos + i];
            }
            if (use_limiter) {
                gain_all |= lim.process(fr).gain;
            } else {
                gain_all |= p.process(fr).gain;
            }
            pos += len;
        }
    }
    vh::Hasher hh;
    hh.s("timing").s(cfg).i(use_limiter);
    vh::count(hh.get(), true);
    std::vector<ld> g(x.size());
    for (int i = 0; i < x.size(); ++i) {
        g[i] = 20 * log10l(ld(gain_all[i]));
    }
    auto measure = [&](int from, int to, const char* phase, int expected) {
        const ld g0 = (from > 0) ? g[from - 1] : 0;
        const ld g1 = g[to - 1];
        if (fabsl(g1 - g0) < 1e-6L) {
            vh::skip("timing_step_without_gain_change");
            return;
        }
        int k10 = -1, k90 = -1;
        bool mono = true;
        for (int i = from; i < to; ++i) {
            const ld frac = (g[i] - g0) / (g1 - g0);
            if (k10 < 0 && frac >= 0.1L) {
                k10 = i;
            }
            if (k90 < 0 && frac >= 0.9L) {
                k90 = i;
            }
            if (i > from && (g1 < g0 ? (g[i] > g[i - 1] + 1e-12L) : (g[i] < g[i - 1] - 1e-12L))) {
                mono = false;
            }
        }
        if (!mono) {
            vh::violation(vh::fmt("C20/smoothing/not_monotone/%s", phase), cfg + vh::fmt(": the smoothed gain is not monotone during the %s phase", phase));
            return;
        }
        const int t = k90 - k10;
        vh::obs_max(std::string("transition_time_rel_err_") + phase, std::fabs(double(t - expected)) / std::max(1, expected));
        vh::obs_add("timing_measurements");
        if (k10 < 0 || k90 < 0 || std::abs(t - expected) > 2 + 0.01 * expected) {
            vh::violation(vh::fmt("C20/smoothing/time_constant/%s", phase), cfg + vh::fmt(": 10-90%% %s time is %d samples, configured %d samples", phase, t, expected));
        }
    };
    measure(N0, N0 + N1, "attack", na);
    measure(N0 + N1, N0 + N1 + N2, "release", nr);
}

//two differently configured processors of the same class fed the SAME short blocks alternately in one thread: each must follow its own
//static characteristic (separately constructed instances never share anything)
static void check_static_interleaved(const DynCfg& c, bool limiter, vh::Rng& r) {
    DynCfg c2 = c;
    c2.T = (c.T - 15 >= -50) ? c.T - r.uni(3, 15) : std::min(0.0, c.T + r.uni(3, 15));   //the constructors admit thresholds in [-50, 0] dB
    c2.R = (c.R * 3) % 50 + 1;
    c2.W = (c.W == 0) ? r.uni(1, 10) : 0.0;
    const std::string cfg = vh::fmt("%s A(T=%.3f,R=%d,W=%.3f) and B(T=%.3f,R=%d,W=%.3f), zero attack/release, same blocks alternately", limiter ? "Limiter" : "Compressor", c.T, c.R, c.W, c2.T, c2.R, c2.W);
    vh::begin_case(limiter ? "limiter_interleaved" : "compressor_interleaved", "%s", cfg.c_str());
    std::vector<double> db;
    for (int i = 0; i < 160; ++i) {
        //plateaus: the same magnitude several times in a row, levels on both sides of both thresholds
        const double v = r.uni(std::min(c.T, c2.T) - 25, 10);
        const int rep = int(r.range(1, 4));
        for (int k = 0; k < rep; ++k) {
            db.push_back(v);
        }
    }
    arr_real x(int(db.size()));
    for (int i = 0; i < x.size(); ++i) {
        x[i] = ((i % 2) ? -1.0 : 1.0) * std::pow(10.0, db[size_t(i)] / 20);
    }
    arr_real oa, ob;
    vh::Hasher hh;
    hh.s(cfg).u64(hash_arr(x));
    vh::count(hh.get(), true);
    vh::obs_add("interleaved_instance_pairs");
    auto run = [&](auto& pa, auto& pb) {
        int pos = 0;
        while (pos < x.size()) {
            const int len = std::min(x.size() - pos, int(r.range(1, 3)));
            arr_real blk(len);
            for (int i = 0; i < len; ++i) {
                blk[i] = x[pos + i];
            }
            oa |= pa.process(blk).out;
            ob |= pb.process(blk).out;
            pos += len;
        }
    };
    if (limiter) {
        dl::Limiter pa(c.fs, c.T, c.W, 0.0, 0.0), pb(c.fs, c2.T, c2.W, 0.0, 0.0);
        run(pa, pb);
    } else {
        dl::Compressor pa(c.fs, c.T, c.R, c.W, 0.0, 0.0), pb(c.fs, c2.T, c2.R, c2.W, 0.0, 0.0);
        run(pa, pb);
    }
    for (int which = 0; which < 2; ++which) {
        const DynCfg& cc = which ? c2 : c;
        const arr_real& o = which ? ob : oa;
        for (int i = 0; i < x.size() && i < o.size(); ++i) {
            const ld xin = 20 * log10l(fabsl(ld(x[i])));
            const ld want = curve(xin, cc.T, cc.W, limiter ? 0 : cc.R);
            const ld got = 20 * log10l(fabsl(ld(o[i])));
            if (!(fabsl(got - want) <= 1e-9L)) {
                vh::violation(vh::fmt("C20/%s/instances_interfere", limiter ? "limiter" : "compressor"),
                              cfg + vh::fmt(": object %c, sample %d: input %.6Lf dB -> output %.9Lf dB, its own static characteristic gives %.9Lf dB", which ? 'B' : 'A', i, xin, got, want));
                return;
            }
        }
    }
}

static void check_agc(double target, double indb, int avg, double maxgain, bool cplx, vh::Rng& r) {
    const std::string cfg = vh::fmt("Agc(target=%.4g, max_gain=%.1f dB, average_len=%d) on a %s constant-envelope input at %.1f dB", target, maxgain, avg, cplx ? "complex" : "real", indb);
    vh::begin_case("agc", "%s", cfg.c_str());
    const double A = std::pow(10.0, indb / 20);
    const int settle = std::max(3000, 20 * avg);
    const int N = settle + 2000;
    const double f = r.uni(0.01, 0.4);
    dl::Agc agc(target, maxgain, avg);
    vh::Hasher hh;
    hh.s(cfg);
    vh::count(hh.get(), true);
    arr_real gain;
    ld pout = 0;
    //in several frames
    int pos = 0;
    arr_cmplx outc;
    arr_real outr;
    while (pos < N) {
        const int len = std::min(N - pos, int(r.range(1, 997)));
        if (cplx) {
            arr_cmplx x(len);
            for (int i = 0; i < len; ++i) {
                const double ph = 2 * 3.141592653589793 * f * (pos + i);
                x[i] = cmplx_t{A * std::cos(ph), A * std::sin(ph)};
            }
            auto res = agc.process(x);
            outc |= res.out;
            gain |= res.gain;
        } else {
            arr_real x(len);
            for (int i = 0; i < len; ++i) {
                x[i] = ((pos + i) % 2) ? A : -A;   //constant envelope for a real signal
            }
            auto res = agc.process(x);
            outr |= res.out;
            gain |= res.gain;
        }
        pos += len;
    }
    const double gmax = std::pow(10.0, maxgain / 20);
    for (int i = 0; i < N; ++i) {
        if (!(gain[i] <= gmax * (1 + 1e-12)) || !(gain[i] >= 0)) {
            vh::violation("C20/agc/max_gain_exceeded", cfg + vh::fmt(": gain %.12g at sample %d exceeds 10^(max_gain/20) = %.12g", gain[i], i, gmax));
            return;
        }
    }
    for (int i = settle; i < N; ++i) {
        pout += cplx ? (ld(outc[i].re) * outc[i].re + ld(outc[i].im) * outc[i].im) : ld(outr[i]) * outr[i];
    }
    pout /= (N - settle);
    const double needed = std::sqrt(target / (A * A));
    vh::obs_add("agc_runs");
    if (needed < gmax * 0.98) {
        vh::obs_max("agc_power_rel_dev", double(fabsl(pout - target) / target));
        vh::obs_add("agc_runs_inside_gain_range");
        if (!(fabsl(pout - target) <= 0.01L * target)) {
            vh::violation(vh::fmt("C20/agc/target_power/%s", cplx ? "complex" : "real"), cfg + vh::fmt(": settled output power %.6Lg, target %.6g (needed gain %.4g < max %.4g)", pout, target, needed, gmax));
        }
    } else {
        vh::obs_add("agc_runs_gain_limited");
    }
}

int main(int argc, char** argv) {
    vh::init(argc, argv, "C20");
    const bool thorough = vh::g.thorough();
    uint64_t idx = 0;
    const int ncfg = thorough ? 24000 : 1200;
    for (int t = 0; t < ncfg; ++t) {
        if (!vh::mine(idx++)) {
            continue;
        }
        vh::Rng r = vh::rng_for("cfg", t);
        DynCfg c;
        c.fs = int(r.pick(std::vector<int>{8000, 16000, 44100, 48000, 96000, 192000}));
        c.T = (t % 5 == 0) ? double(r.pick(std::vector<int>{-50, -10, 0})) : r.uni(-50, 0);
        c.R = (t % 4 == 0) ? int(r.pick(std::vector<int>{1, 2, 50})) : int(r.range(1, 50));
        c.W = (t % 3 == 0) ? 0.0 : ((t % 7 == 0) ? 20.0 : r.uni(0.1, 20));
        c.at = (t % 2) ? 0.0 : std::pow(10.0, r.uni(-4, 0.6));
        c.rt = (t % 3) ? std::pow(10.0, r.uni(-4, 0.6)) : 0.0;
        c.at = std::min(c.at, 4.0);
        c.rt = std::min(c.rt, 4.0);
        check_static(c, false, r, thorough);
        check_static(c, true, r, thorough);
        check_static_interleaved(c, false, r);
        check_static_interleaved(c, true, r);
        check_arbitrary(c, r, thorough ? 100000 : 20000);
        //time constants (bounded so that the run stays short)
        DynCfg tc = c;
        tc.fs = 8000;
        tc.at = std::pow(10.0, r.uni(-3, -0.7));
        tc.rt = std::pow(10.0, r.uni(-3, -0.7));
        tc.R = std::max(2, c.R);
        check_timing(tc, r);
    }
    vh::sample("static curve: Compressor(T=-20,R=4,W=10) and Limiter with zero attack/release on input levels -100..+20 dB plus a 0.01 dB grid and 1e-7 dB steps around both knee edges, compared with the long-double characteristic (1e-9 dB)");
    //AGC
    {
        const int cnt = thorough ? 12000 : 600;
        for (int t = 0; t < cnt; ++t) {
            if (!vh::mine(idx++)) {
                continue;
            }
            vh::Rng r = vh::rng_for("agc", t);
            const double target = std::pow(10.0, r.uni(-2, 2));
            //a fifth of the runs need strong ATTENUATION (input far above the target): the required gain is far below max_gain
            const double indb = (t % 5 == 4) ? r.uni(20, 60) : r.uni(-60, 20);
            const int avg = (t % 4 == 0) ? 1 : ((t % 4 == 1) ? 1000 : int(r.range(2, 999)));
            const double mg = (t % 3 == 0) ? r.uni(10, 40) : 60.0;
            check_agc(target, indb, avg, mg, (t % 2) == 0, r);
            if (t % 3 == 1) {
                //weak inputs (-100 .. -62 dBFS) with a target the loop can still reach inside max_gain = 60 dB
                const double wdb = r.uni(-100, -62);
                const double wt = std::pow(10.0, wdb / 10) * std::pow(10.0, r.uni(10, 56) / 10);
                check_agc(wt, wdb, avg, 60.0, (t % 2) == 1, r);
                vh::obs_add("agc_runs_with_weak_input");
            }
        }
    }
    vh::sample("Agc: targets 0.01..100, input levels -60..+20 dB, averaging lengths 1..1000, complex exponentials and real constant-envelope inputs in random frames; settled power within 1% when the needed gain is below max_gain");
    return vh::finish();
}
