// C05 - no call corrupts memory or hangs: misuse is reported by exception.
// Every generated call program runs in a forked child of this (ASan+UBSan, NDEBUG) binary. Allowed outcomes:
// normal return or a C++ exception. Anything else (sanitizer report, fatal signal, std::terminate, step budget
// exceeded, watchdog) is a violation keyed by template and kind.
#include "dsp.h"
#include <map>
#include <limits>
#include "verif-hooks.h"

#include <fstream>
#include <iostream>
#include <optional>
#include <sstream>
#include <sys/wait.h>
#include <time.h>

using namespace vd;
namespace dl = dsplib;

//------------------------------------------------------------------------------------------------
// variant decoder: choose(k) consumes one mixed-radix digit; in count mode it records the radix
struct V
{
    bool counting{true};
    uint64_t total{1};
    uint64_t code{0};
    uint64_t seed{0};
    bool dup{false};                 //a boundary option equal to an earlier one was selected -> skip the case
    std::function<void()> body;      //set by run()
    std::string text;

    int choose(int k) {
        if (counting) {
            total *= uint64_t(k);
            return 0;
        }
        const int d = int(code % uint64_t(k));
        code /= uint64_t(k);
        return d;
    }
    int pick(std::initializer_list<int> opts) {
        const int d = choose(int(opts.size()));
        const int v = *(opts.begin() + d);
        text += vh::fmt(" %d", v);
        return v;
    }
    //length relative to the expected one: {0,1,2,3,n-1,n,n+1,2n}
    int len(int n) {
        const int o[8] = {n, 0, 1, 2, 3, n - 1, n + 1, 2 * n};
        const int d = choose(8);
        const int v = o[d];
        for (int i = 0; i < d; ++i) {
            if (o[i] == v) {
                dup = true;
            }
        }
        if (v < 0) {
            dup = true;
        }
        text += vh::fmt(" len=%d(of %d)", v, n);
        return v;
    }
    void run(std::function<void()> f) {
        body = std::move(f);
    }
    vh::Rng rng() const {
        return vh::Rng(seed * 0x9E3779B97F4A7C15ULL + 12345);
    }
};

struct Tmpl
{
    std::string name;
    std::function<void(V&)> fn;
    uint64_t total{0};
};

static std::vector<Tmpl> g_tmpl;

static void reg(const char* name, std::function<void(V&)> fn) {
    Tmpl t;
    t.name = name;
    t.fn = std::move(fn);
    V v;
    v.counting = true;
    t.fn(v);
    t.total = v.total;
    g_tmpl.push_back(std::move(t));
}

//array contents: usually finite; in "poisoned" cases some entries are NaN, +-Inf, +-DBL_MAX or denormal - arrays of the declared
//element type may hold any double, and no content may make a call touch memory it does not own or loop for ever
static int g_poison = 0;
static double poison_value(vh::Rng& r) {
    switch (r.below(7)) {
    case 0: return std::numeric_limits<double>::quiet_NaN();
    case 1: return std::numeric_limits<double>::infinity();
    case 2: return -std::numeric_limits<double>::infinity();
    case 3: return std::numeric_limits<double>::max();
    case 4: return -std::numeric_limits<double>::max();
    case 5: return std::numeric_limits<double>::denorm_min();
    default: return -0.0;
    }
}

static arr_real AR(int n, uint64_t seed = 1) {
    vh::Rng r(seed + 77);
    arr_real x(n);
    for (int i = 0; i < n; ++i) {
        x[i] = r.gauss();
    }
    if (g_poison && n > 0) {
        const int cnt = (g_poison == 1) ? 1 : int(r.range(1, std::max(1, n / 3)));
        for (int k = 0; k < cnt; ++k) {
            x[int(r.below(uint64_t(n)))] = (g_poison == 1) ? std::numeric_limits<double>::quiet_NaN() : poison_value(r);
        }
    }
    return x;
}

static arr_cmplx AC(int n, uint64_t seed = 1) {
    vh::Rng r(seed + 99);
    arr_cmplx x(n);
    for (int i = 0; i < n; ++i) {
        x[i] = cmplx_t{r.gauss(), r.gauss()};
    }
    if (g_poison && n > 0) {
        const int cnt = (g_poison == 1) ? 1 : int(r.range(1, std::max(1, n / 3)));
        for (int k = 0; k < cnt; ++k) {
            const int at = int(r.below(uint64_t(n)));
            if (r.coin()) {
                x[at].re = (g_poison == 1) ? std::numeric_limits<double>::quiet_NaN() : poison_value(r);
            } else {
                x[at].im = (g_poison == 1) ? std::numeric_limits<double>::quiet_NaN() : poison_value(r);
            }
        }
    }
    return x;
}

//swallow the exception of a deliberate misuse so that the object can be reused afterwards
template<class F>
static void tolerate(F f) {
    try {
        f();
    } catch (const std::exception&) {
    }
}

static volatile double g_sink = 0;
static void use(const arr_real& a) {
    for (int i = 0; i < a.size(); ++i) {
        g_sink = g_sink + a[i];
    }
}
static void use(const arr_cmplx& a) {
    for (int i = 0; i < a.size(); ++i) {
        g_sink = g_sink + a[i].re + a[i].im;
    }
}
static void use(double v) {
    g_sink = g_sink + v;
}
static void use(cmplx_t v) {
    g_sink = g_sink + v.re + v.im;
}

//------------------------------------------------------------------------------------------------
static void register_templates() {
    // ---- array.h ----
    reg("arith_mismatch_real", [](V& v) {
        const int n = v.pick({1, 5, 64});
        const int m = v.len(n);
        const int op = v.choose(8);
        v.run([=] {
            arr_real a = AR(n), b = AR(m);
            switch (op) {
            case 0: use(a + b); break;
            case 1: use(a - b); break;
            case 2: use(a * b); break;
            case 3: use(a / b); break;
            case 4: a += b; break;
            case 5: a -= b; break;
            case 6: a *= b; break;
            default: a /= b; break;
            }
            use(a);
        });
    });
    reg("arith_mismatch_cmplx", [](V& v) {
        const int n = v.pick({1, 5, 64});
        const int m = v.len(n);
        const int op = v.choose(12);
        v.run([=] {
            arr_cmplx a = AC(n), b = AC(m);
            arr_real c = AR(m), d = AR(n);
            switch (op) {
            case 0: use(a + b); break;
            case 1: use(a - c); break;
            case 2: use(c * a); break;
            case 3: use(a / b); break;
            case 4: a += b; break;
            case 5: a -= c; break;
            case 6: a *= b; break;
            case 7: a /= c; break;
            case 8: use(d + b); break;
            case 9: use(d / b); break;
            case 10: use(dl::dot(a, b)); break;
            default: use(dl::dot(d, c)); break;
            }
            use(a);
        });
    });
    reg("compare_arrays", [](V& v) {
        const int n = v.pick({1, 3, 50});
        const int m = v.len(n);
        const int op = v.choose(8);
        v.run([=] {
            const arr_real a = AR(n), b = AR(m);
            const arr_cmplx c = AC(n), d = AC(m);
            std::vector<bool> r;
            switch (op) {
            case 0: r = (a > b); break;
            case 1: r = (a < b); break;
            case 2: r = (a == b); break;
            case 3: r = (a != b); break;
            case 4: r = (c > d); break;
            case 5: r = (c < d); break;
            case 6: r = (c == d); break;
            default: r = (c != d); break;
            }
            use(double(dl::sum(r)));
            use(double(dl::sum(a > 0.0)) + double(dl::sum(a < 0.5)) + double(dl::sum(a == 0.0)) + double(dl::sum(a != 0.0)));
        });
    });
    reg("mask_select", [](V& v) {
        const int n = v.pick({0, 1, 7, 40});
        const int m = v.len(n);
        v.run([=] {
            const arr_real a = AR(n);
            const arr_cmplx c = AC(n);
            std::vector<bool> mask(m);
            for (int i = 0; i < m; ++i) {
                mask[i] = (i % 3) != 0;
            }
            tolerate([&] { use(a[mask]); });
            use(c[mask]);
        });
    });
    reg("index_list", [](V& v) {
        const int n = v.pick({1, 2, 9});
        const int kind = v.choose(9);
        const int form = v.choose(3);
        v.run([=] {
            const arr_real a = AR(n);
            const arr_cmplx c = AC(n);
            std::vector<int> idx;
            switch (kind) {
            case 0: break;                                  //empty
            case 1: idx = {0}; break;
            case 2: idx = {n - 1, 0, n - 1}; break;         //duplicates
            case 3: idx = {0, -1}; break;                   //negative entry
            case 4: idx = {-n}; break;
            case 5: idx = {n}; break;                       //one past
            case 6: idx = {0, n + 2, 0}; break;
            case 7: idx = {-n - 1, n + 1}; break;
            default:
                for (int i = -n; i <= n + 2; ++i) {
                    idx.push_back(i);
                }
                break;
            }
            if (form == 0) {
                use(a[idx]);
            } else if (form == 1) {
                use(c[idx]);
            } else {
                use(a[dl::arr_int(idx)]);
            }
        });
    });
    reg("slice_any", [](V& v) {
        const int n = v.pick({0, 1, 4, 9});
        //boundary positions of start and stop relative to the array length
        const int c1 = v.choose(9);
        const int c2 = v.choose(9);
        const int st = v.pick({-3, -1, 0, 1, 2, 7});
        const int rhs = v.choose(5);
        v.run([=] {
            arr_real a = AR(n);
            const arr_real& ca = a;
            const int pos[9] = {-n - 1, -n, -n + 1, -1, 0, n / 2, n - 1, n, n + 1};
            const int s1 = pos[c1];
            const int s2 = pos[c2];
            tolerate([&] { use(*ca.slice(s1, s2, st)); });
            tolerate([&] { arr_real b = a.slice(s1, s2, st); use(b); });
            auto s = a.slice(s1, s2, st);
            const int cnt = s.size();
            switch (rhs) {
            case 0: s = 3.5; break;
            case 1: s = AR(cnt); break;
            case 2: tolerate([&] { a.slice(s1, s2, st) = AR(cnt + 1); }); tolerate([&] { a.slice(s1, s2, st) = AR(2 * cnt + 1); }); tolerate([&] { a.slice(s1, s2, st) = arr_real(); }); break;
            case 3: tolerate([&] { a.slice(s1, s2, st) = {1.0, 2.0, 3.0, 4.0, 5.0, 6.0, 7.0, 8.0}; }); tolerate([&] { a.slice(s1, s2, st) = {1.0}; }); break;
            default: {
                arr_real o = AR(3 * cnt + 2);
                tolerate([&] { a.slice(s1, s2, st) = o.slice(0, 3 * cnt, 3); });
                tolerate([&] { a.slice(s1, s2, st) = o.slice(0, cnt + 1); });
                tolerate([&] { a.slice(s1, s2, st) = a.slice(0, cnt); });
                break;
            }
            }
            use(a);
            std::ostringstream os;
            os << a;
        });
    });
    reg("slice_same_array", [](V& v) {
        //slice-to-slice assignment inside ONE array: overlapping and disjoint ranges, destination before and after the source,
        //unit and non-unit strides, equal and unequal counts
        const int n = v.pick({2, 3, 9, 16, 65, 300});
        const int cd = v.choose(6);
        const int cs = v.choose(6);
        const int cc = v.choose(5);
        const int sd = v.pick({1, -1, 2});
        const int ss = v.pick({1, -1, 2, 3});
        const int extra = v.pick({0, 0, 1, -1});
        const int cplx = v.choose(2);
        v.run([=] {
            const int pos[6] = {0, 1, n / 4, n / 2, n - 2, n - 1};
            const int cnts[5] = {1, 2, n / 4 + 1, n / 2, n - 1};
            const int d0 = pos[cd];
            const int s0 = pos[cs];
            const int cnt = cnts[cc];
            auto stop = [](int start, int count, int step) { return start + count * step; };
            auto go = [&](auto a) {
                const auto& ca = a;
                tolerate([&] { a.slice(d0, stop(d0, cnt, sd), sd) = a.slice(s0, stop(s0, cnt + extra, ss), ss); });
                tolerate([&] { a.slice(d0, stop(d0, cnt, sd), sd) = ca.slice(s0, stop(s0, cnt + extra, ss), ss); });
                tolerate([&] { a.slice(0, n - 1) = a.slice(1, n); });
                tolerate([&] { a.slice(1, n) = a.slice(0, n - 1); });
                tolerate([&] { a.slice(0, cnt) = a.slice(0, cnt + 1); });
                use(a);
            };
            if (cplx) {
                go(AC(n));
            } else {
                go(AR(n));
            }
        });
    });
    reg("print_arrays", [](V& v) {
        const int n = v.pick({0, 1, 3});
        v.run([=] {
            std::ostringstream os;
            os << AR(n) << AC(n) << cmplx_t{1, -2};
            use(double(os.str().size()));
        });
    });
    reg("construct_convert", [](V& v) {
        const int n = v.pick({0, 1, 5});
        v.run([=] {
            std::vector<float> f(n, 1.5f);
            std::vector<int> iv(n, 3);
            arr_real a(f), b(iv);
            arr_real c(f.data(), f.size());
            std::vector<std::complex<double>> sc(n, {1.0, 2.0});
            arr_cmplx d(sc);
            use(a + b + c);
            use(d);
            use(dl::to_real(iv));
            use(dl::from_real<float>(a).size());
            std::vector<double> odd(2 * n + 1, 1.0);
            tolerate([&] { use(dl::to_complex(odd)); });
            std::vector<double> ev(2 * n, 1.0);
            use(dl::to_complex(ev));
            use(double(dl::from_complex<double>(d).size()));
            use(a.apply([](double t) { return t * 2; }));
            use(a.to_vec<float>().size());
            use(dl::complex(a));
            use((a | d));
            use(dl::concatenate(a, b, c));
            tolerate([&] { use(dl::zeropad(a, n - 1)); });
            use(dl::zeropad(a, n + 2));
        });
    });

    reg("misc_helpers", [](V& v) {
        const int n = v.pick({0, 1, 6});
        const int p = v.pick({1, 2, 6, 160});
        const int q = v.pick({1, 3, 4, 147});
        v.run([=] {
            const arr_real a = AR(n);
            const arr_cmplx c = AC(n);
            use(double(dl::sign(-2.5) + dl::sign(0.0) + dl::sign(3.0)));
            use(dl::sign(cmplx_t{0, 0}));
            use(dl::sign(cmplx_t{3, -4}));
            use(dl::eps() + dl::eps(1e10) + double(dl::eps(1.0f)));
            const auto pq = dl::IResampler::simplify(p, q);
            use(double(pq.first + pq.second));
            use(dl::array_cast<cmplx_t>(a));
            use(dl::array_cast<real_t>(a));
            use(dl::max(2, 3.5) + dl::min(2.0, 3));
            if (n > 0) {
                arr_real b = a;
                auto s = b.slice(0, n, 1);
                use(double(s.stride() + s.size()));
                const arr_real& cb = b;
                use(double(cb.slice(0, n).stride()));
                use(double(b(0) + b(-1) + cb(0)));
            }
            dl::LmsFilterR f(4, 0.1);
            dl::RlsFilterR g(4);
            use(double(f.coeffs_locked()) + double(g.coeffs_locked()));
            use(dl::nmse(a + 1.0, a));
            use(dl::nmse(c + 1.0, c));
        });
    });

    // ---- math.h ----
    reg("math_elementwise", [](V& v) {
        const int n = v.pick({0, 1, 2, 17});
        const int f = v.choose(22);
        v.run([=] {
            const arr_real a = AR(n);
            const arr_cmplx c = AC(n);
            switch (f) {
            case 0: use(dl::exp(a)); use(dl::exp(c)); break;
            case 1: use(dl::expj(a)); break;
            case 2: use(dl::tanh(a)); use(dl::tanh(c)); break;
            case 3: use(dl::abs(a)); use(dl::abs(c)); use(dl::abs2(a)); use(dl::abs2(c)); break;
            case 4: use(dl::angle(c)); break;
            case 5: use(dl::round(a)); use(dl::round(c)); break;
            case 6: use(dl::sum(a)); use(dl::sum(c)); break;
            case 7: use(dl::cumsum(a)); use(dl::cumsum(c, dl::Direction::Reverse)); break;
            case 8: use(dl::real(c)); use(dl::imag(c)); use(dl::conj(c)); use(dl::conj(a)); break;
            case 9: use(dl::log(dl::abs(a))); use(dl::log2(dl::abs(a))); use(dl::log10(dl::abs(a))); break;
            case 10: use(dl::sin(a)); use(dl::cos(a)); break;
            case 11: use(dl::power(a, 2)); use(dl::power(c, 3)); use(dl::power(a, 0)); use(dl::power(c, -1)); break;
            case 12: use(dl::power(dl::abs(a), 0.5)); use(dl::power(c, 0.5)); use(dl::power(2.0, a)); use(dl::power(cmplx_t{1, 1}, a)); break;
            case 13: use(dl::deg2rad(a)); use(dl::rad2deg(a)); break;
            case 14: use(dl::pow2db(dl::abs(a))); use(dl::db2pow(a)); use(dl::mag2db(dl::abs(a))); use(dl::db2mag(a)); break;
            case 15: use(double(dl::anynan(a)) + double(dl::anynan(c)) + double(dl::anyinf(a)) + double(dl::anyinf(c))); break;
            case 16: use(dl::norm(a, 1)); use(dl::norm(a, 2)); use(dl::norm(a, 3)); use(dl::norm(c, 1)); use(dl::norm(c, 2)); use(dl::norm(c, 5)); break;
            case 17: use(dl::sort(a).first); use(dl::sort(a, dl::Direction::Descend).first); use(double(dl::issorted(a))); break;
            case 18: use(dl::flip(a)); use(dl::flip(c)); use(dl::repelem(a, 0)); use(dl::repelem(a, 1)); use(dl::repelem(c, 3)); break;
            case 19: use(dl::delayseq(a, 0)); use(dl::delayseq(a, 1)); use(dl::delayseq(a, -1)); use(dl::delayseq(a, n)); use(dl::delayseq(a, -n - 3)); use(dl::delayseq(a, n - 1)); break;
            case 20: use(dl::complex(a, a)); break;
            default: use(dl::mse(a, a)); use(dl::mse(c, c)); break;
            }
        });
    });
    reg("math_reductions_nonempty", [](V& v) {
        const int n = v.pick({1, 2, 3, 10});
        v.run([=] {
            const arr_real a = AR(n);
            const arr_cmplx c = AC(n);
            use(dl::max(a)); use(dl::min(a)); use(double(dl::argmax(a))); use(double(dl::argmin(a)));
            use(dl::abs(dl::max(c))); use(dl::abs(dl::min(c))); use(double(dl::argmax(c))); use(double(dl::argmin(c)));
            use(dl::peak2peak(a)); use(dl::abs(dl::peak2peak(c)));
            use(dl::mean(a)); use(dl::abs(dl::mean(c))); use(dl::median(a));
            use(dl::stddev(a)); use(dl::stddev(c)); use(dl::rms(a)); use(dl::rms(c));
            use(dl::nmse(a, a));
        });
    });
    reg("math_binary_mismatch", [](V& v) {
        const int n = v.pick({1, 4, 33});
        const int m = v.len(n);
        const int f = v.choose(8);
        v.run([=] {
            const arr_real a = AR(n), b = AR(m);
            const arr_cmplx c = AC(n);
            switch (f) {
            case 0: use(dl::dot(a, b)); break;
            case 1: use(dl::power(dl::abs(a), b)); break;
            case 2: use(dl::power(c, b)); break;
            case 3: use(dl::complex(a, b)); break;
            case 4: use(dl::corr(a, b)); break;
            case 5: use(dl::corr(a, b, dl::Correlation::Spearman)); break;
            case 6: use(dl::corr(a, b, dl::Correlation::Kendall)); break;
            default: use(dl::mse(a, b)); break;
            }
        });
    });
    reg("updown_sample", [](V& v) {
        const int n = v.pick({0, 1, 5, 12});
        const int f = v.pick({0, 1, 2, 3, 13});
        const int ph = v.pick({-1, 0, 1, 2, 3, 12, 13});
        v.run([=] {
            const arr_real a = AR(n);
            const arr_cmplx c = AC(n);
            tolerate([&] { use(dl::downsample(a, f, ph)); });
            tolerate([&] { use(dl::upsample(a, f, ph)); });
            tolerate([&] { use(dl::downsample(c, f, ph)); });
            use(dl::upsample(c, f, ph));
        });
    });
    reg("primes_helpers", [](V& v) {
        const int which = v.choose(4);
        const int ai = v.choose(16);
        v.run([=] {
            const uint32_t args[16] = {0u, 1u, 2u, 3u, 4u, 255u, 256u, 65521u, 65536u, 1000003u, 16777259u, 2147483647u, 4292870399u /*65521*65519*/,
                                       4293001441u /*65521^2*/, 4294967291u, 4294967295u};
            const uint32_t n = args[ai];
            auto& st = dl::verif::step_state();
            st.steps = 0;
            const double sq = std::sqrt(double(n));
            switch (which) {
            case 0:
                st.budget = uint64_t(32 * (sq + 64));
                use(double(dl::isprime(n)));
                break;
            case 1:
                st.budget = uint64_t(32 * (sq + 64) + 64);
                use(double(dl::factor(n).size()));
                break;
            case 2:
                if (n <= 4294967291u) {
                    st.budget = uint64_t(32 * (sq + 64) * 400);   //prime gaps below 2^32 are < 400
                    use(double(dl::nextprime(n)));
                }
                break;
            default:
                if (n <= 1000003u) {
                    st.budget = 0;
                    use(double(dl::primes(n).size()));
                }
                break;
            }
        });
    });
    reg("pow2_helpers", [](V& v) {
        const int m = v.pick({0, 1, 2, 3, 4, 5, 1023, 1024, 1025, 1 << 30, (1 << 30) + 1, 2147483647});
        v.run([=] {
            use(double(dl::nextpow2(m)));
            use(double(dl::ispow2(m)));
        });
    });

    // ---- utils.h ----
    reg("arange_linspace", [](V& v) {
        const int a = v.pick({-3, 0, 2, 7});
        const int b = v.pick({-3, 0, 2, 7});
        const int s = v.pick({-2, -1, 1, 2, 5});
        v.run([=] {
            tolerate([&] { use(dl::arange(a, b, s)); });
            tolerate([&] { use(dl::arange(double(a), double(b), s * 0.5)); });
            tolerate([&] { use(dl::arange(b)); });
            use(dl::linspace(a, b, 1)); use(dl::linspace(a, b, 2)); use(dl::linspace(a, b, 7));
            tolerate([&] { use(dl::linspace(a, b, 0)); });
            use(dl::zeros(0)); use(dl::ones(3));
        });
    });
    reg("peakloc", [](V& v) {
        const int n = v.pick({1, 2, 3, 8});
        const int idx = v.choose(3);
        const int cyc = v.choose(2);
        v.run([=] {
            const arr_real a = AR(n);
            const arr_cmplx c = AC(n);
            const int i = (idx == 0) ? 0 : (idx == 1 ? n / 2 : n - 1);
            use(dl::peakloc(a, i, cyc != 0));
            use(dl::peakloc(c, i, cyc != 0));
        });
    });
    reg("finddelay_gccphat", [](V& v) {
        const int n = v.pick({1, 2, 16, 100});
        const int m = v.len(n);
        const int f = v.choose(4);
        v.run([=] {
            const arr_real a = AR(n), b = AR(m, 5);
            switch (f) {
            case 0: use(double(dl::finddelay(a, b))); break;
            case 1: use(double(dl::finddelay(AC(n), AC(m, 3)))); break;
            case 2: use(dl::gccphat(a, b, 1).tau); break;
            default: use(dl::gccphat(std::vector<arr_real>{a, b}, a, 8000).tau); break;
            }
        });
    });
    reg("findpeaks", [](V& v) {
        const int n = v.pick({1, 2, 3, 20});
        const int k = v.pick({1, 2, 5, 30});
        v.run([=] {
            const auto p = dl::findpeaks(dl::abs(AR(n)), k);
            use(double(p.pks.size()));
        });
    });
    reg("from_file", [](V& v) {
        const int t = v.choose(4);
        const int off = v.pick({0, 1, 3, 1000});
        const int cnt = v.pick({0, 1, 5, 100000});
        const int en = v.choose(2);
        v.run([=] {
            const std::string p = "/proc/self/cmdline";
            const dl::dtype ty[4] = {dl::dtype::int16, dl::dtype::uint16, dl::dtype::int32, dl::dtype::uint32};
            use(dl::from_file(p, ty[t], en ? dl::endian::big : dl::endian::little, off, cnt));
            tolerate([&] { use(dl::from_file("/nonexistent/file.bin")); });
        });
    });

    // ---- fft.h / ifft.h / czt.h ----
    reg("fftplan_solve_len", [](V& v) {
        const int n = v.pick({1, 2, 3, 4, 8, 12, 15, 16, 17, 41, 43, 64, 97, 360, 1024});
        const int m = v.len(n);
        const int form = v.choose(4);
        v.run([=] {
            if (form == 0) {
                dl::FftPlan p(n);
                tolerate([&] { use(p.solve(AC(m))); });
                use(p(AC(n)));
            } else if (form == 1) {
                dl::FftPlanR p(n);
                tolerate([&] { use(p.solve(AR(m))); });
                use(p(AR(n)));
            } else if (form == 2) {
                dl::IfftPlan p(n);
                tolerate([&] { use(p.solve(AC(m))); });
                use(p(AC(n)));
            } else {
                dl::FftPlan p(n);
                const dl::BaseFftPlanC& b = p;
                arr_cmplx in = AC(std::max(m, 1)), out(std::max(m, 1));
                tolerate([&] { b.solve(in.data(), out.data(), m); });
                use(out);
            }
        });
    });
    reg("irfft_len", [](V& v) {
        const int n = v.pick({1, 2, 3, 4, 6, 8, 10, 16, 30, 64, 100});
        const int m = v.len(n);
        const int form = v.choose(3);
        v.run([=] {
            if (form == 0) {
                use(dl::irfft(AC(m), n));
            } else if (form == 1) {
                use(dl::irfft(AC(m)));
            } else {
                dl::IfftPlanR p(n);
                tolerate([&] { use(p.solve(AC(m))); });
                tolerate([&] { use(p.solve(AC(n / 2 + 1))); });
                use(p(AC(n)));
            }
        });
    });
    reg("fft_n_hilbert_n", [](V& v) {
        const int n = v.pick({1, 2, 3, 5, 8, 21, 64});
        const int m = v.len(n);
        const int f = v.choose(6);
        v.run([=] {
            switch (f) {
            case 0: use(dl::fft(AC(m), n)); break;
            case 1: use(dl::fft(AR(m), n)); break;
            case 2: use(dl::rfft(AR(m), n)); break;
            case 3: use(dl::hilbert(AR(m), n)); break;
            case 4: use(dl::hilbert(AR(n))); break;
            default: use(dl::ifft(AC(n))); use(dl::fft(AC(n))); use(dl::rfft(AR(n))); break;
            }
        });
    });
    reg("czt", [](V& v) {
        const int n = v.pick({1, 2, 7, 64});
        const int m = v.pick({1, 2, 9, 100});
        const int l = v.len(n);
        v.run([=] {
            const cmplx_t w = dl::expj(-0.3);
            dl::CztPlan p(n, m, w, cmplx_t{0.9, 0.1});
            tolerate([&] { use(p.solve(AC(l))); });
            use(p(AC(n)));
            if (l > 0) {
                use(dl::czt(AC(l), m, w));
            }
        });
    });

    // ---- fir.h ----
    reg("fir_filter", [](V& v) {
        const int nh = v.pick({1, 2, 3, 32});
        const int nx = v.pick({0, 1, 2, 31, 32, 33, 100});
        const int cx = v.choose(2);
        v.run([=] {
            if (cx == 0) {
                dl::FirFilterR f(AR(nh));
                use(f.process(AR(nx)));
                use(f(AR(1)));
                use(f(arr_real()));
                use(f(AR(nx)));
                use(f.coeffs());
            } else {
                dl::FirFilterC f(AC(nh));
                use(f.process(AC(nx)));
                use(f(AC(1)));
                use(f(AC(nx)));
            }
        });
    });
    reg("fir_conv_static", [](V& v) {
        const int nh = v.pick({1, 2, 8});
        const int nx = v.len(nh);
        v.run([=] {
            //conv needs len(x) >= len(h); shorter inputs must not corrupt memory
            use(dl::FirFilterR::conv(AR(nx), AR(nh)));
        });
    });
    reg("fft_filter", [](V& v) {
        const int nh = v.pick({1, 2, 3, 17, 100});
        const int nx = v.pick({0, 1, 5, 63, 64, 1000});
        const int cx = v.choose(2);
        v.run([=] {
            if (cx == 0) {
                dl::FftFilter f(AR(nh));
                use(f.process(AR(nx)));
                use(f(AR(f.block_size())));
                use(f(AR(1)));
                use(f(AR(2 * f.block_size() + 1)));
            } else {
                dl::FftFilter f(AC(nh));
                use(f.process(AC(nx)));
                use(f(AC(f.block_size() - 1)));
                use(f(AC(1)));
            }
            dl::FftFilter def;
            use(double(def.block_size()));
        });
    });
    reg("fir1", [](V& v) {
        const int n = v.pick({1, 2, 3, 10, 11});
        const int ty = v.choose(4);
        const int wl = v.choose(5);
        v.run([=] {
            const dl::FilterType t[4] = {dl::FilterType::Low, dl::FilterType::High, dl::FilterType::Bandpass, dl::FilterType::Bandstop};
            const int nominal = n + 1 + (((n % 2) == 1 && (ty == 1 || ty == 3)) ? 1 : 0);
            const int wlen[5] = {nominal, nominal - 1, nominal + 1, 0, 1};
            const arr_real win = dl::ones(wlen[wl]);
            if (ty < 2) {
                tolerate([&] { use(dl::fir1(n, 0.3, t[ty], win)); });
                use(dl::fir1(n, 0.3, t[ty]));
                tolerate([&] { use(dl::fir1(n, 0.3, dl::FilterType::Bandpass)); });
            } else {
                tolerate([&] { use(dl::fir1(n, 0.2, 0.6, t[ty], win)); });
                use(dl::fir1(n, 0.2, 0.6, t[ty]));
                tolerate([&] { use(dl::fir1(n, 0.2, 0.6, dl::FilterType::Low)); });
            }
            use(double(int(dl::firtype(AR(n)))));
            use(double(int(dl::firtype(arr_real()))));
        });
    });

    // ---- resample.h ----
    reg("decimator", [](V& v) {
        const int M = v.pick({1, 2, 3, 7});
        const int hl = v.pick({-1, 0, 1, 2, 5, 21});
        const int nx = v.pick({0, 1, 2, 6, 7, 14, 43});
        v.run([=] {
            std::optional<dl::FIRDecimator> d;
            if (hl < 0) {
                d.emplace(M);
            } else {
                d.emplace(M, dl::abs(AR(hl)) + 0.1);
            }
            tolerate([&] { use(d->process(AR(nx))); });
            use(d->process(AR(2 * M)));
            use(double(d->delay() + d->decim_rate() + d->next_size(5) + d->prev_size(5)));
        });
    });
    reg("interpolator", [](V& v) {
        const int L = v.pick({1, 2, 3, 7});
        const int hl = v.pick({-1, 0, 1, 2, 5, 21});
        const int nx = v.pick({0, 1, 2, 43});
        v.run([=] {
            std::optional<dl::FIRInterpolator> d;
            if (hl < 0) {
                d.emplace(L);
            } else {
                d.emplace(L, dl::abs(AR(hl)) + 0.1);
            }
            use(d->process(AR(nx)));
            use(d->process(AR(3)));
            use(double(d->delay() + d->interp_rate()));
        });
    });
    reg("rate_converter", [](V& v) {
        const int L = v.pick({1, 2, 3, 5});
        const int M = v.pick({1, 2, 3, 7});
        const int hl = v.pick({-1, 0, 1, 4, 30});
        const int nx = v.pick({0, 1, 6, 7, 42, 43});
        v.run([=] {
            std::optional<dl::FIRRateConverter> d;
            if (hl < 0) {
                d.emplace(L, M);
            } else {
                d.emplace(L, M, dl::abs(AR(hl)) + 0.1);
            }
            tolerate([&] { use(d->process(AR(nx))); });
            use(d->process(AR(3 * M)));
            use(double(d->delay() + d->interp_rate() + d->decim_rate()));
        });
    });
    reg("resampler_and_resample", [](V& v) {
        const int p = v.pick({1, 2, 3, 5, 9, 160});
        const int q = v.pick({1, 2, 3, 4, 7, 147});
        const int nx = v.pick({0, 1, 2, 7, 100});
        const int f = v.choose(3);
        v.run([=] {
            if (f == 0) {
                use(dl::resample(AR(nx), p, q));
            } else if (f == 1) {
                use(dl::resample(AR(nx), p, q, dl::abs(AR(4 * std::max(p, q))) + 0.1));
                use(dl::resample(AR(nx), p, q, 3, 2.0));
            } else {
                dl::FIRResampler r(p, q);
                tolerate([&] { use(r.process(AR(nx))); });
                use(r.process(AR(4 * r.decim_rate())));
                use(double(r.delay() + r.interp_rate() + r.decim_rate()));
                use(dl::design_multirate_fir(p, q, 4, 60));
                use(dl::design_multirate_fir(p, q, 2, 30));
                const auto pp = dl::IResampler::polyphase(dl::abs(AR(nx)) + 1.0, std::max(p, 1), 2.0, true);
                use(double(pp.size()));
                use(double(dl::IResampler::next_size(nx, p, q) + dl::IResampler::prev_size(nx, p, q)));
            }
        });
    });

    reg("resample_rates_in_hz", [](V& v) {
        //rates given in Hz (not in lowest terms) with inputs long enough that len * rate does not fit 32 bits
        const int k = v.choose(6);
        const int nx = v.pick({1, 441, 44740, 50000, 100001});
        const int f = v.choose(4);
        v.run([=] {
            const int ps[6] = {48000, 16000, 44100, 48000, 8000, 96000};
            const int qs[6] = {16000, 48000, 48000, 44100, 8000, 32000};
            const int p = ps[k];
            const int q = qs[k];
            switch (f) {
            case 0: use(dl::resample(AR(nx), p, q)); break;
            case 1: use(dl::resample(AR(nx), p, q, dl::abs(AR(25)) + 0.1)); break;
            case 2: use(dl::resample(AR(nx), p, q, dl::abs(AR(96)) + 0.1)); break;
            default: use(dl::resample(AR(nx), p, q, 3, 2.0)); break;
            }
            dl::FIRResampler r(p, q);
            use(r.process(AR(r.decim_rate() * 7)));
            use(double(dl::IResampler::next_size(nx, p, q) + dl::IResampler::prev_size(nx, p, q)));
        });
    });

    // ---- delay / medfilt / hilbert / tuner / agc ----
    reg("delay", [](V& v) {
        const int nd = v.pick({0, 1, 5});
        const int nx = v.pick({0, 1, 4, 5, 6, 30});
        v.run([=] {
            dl::DelayReal d(nd);
            use(d.process(AR(nx)));
            use(d(AR(1)));
            use(d(AR(nx)));
            dl::DelayCmplx dc(nd);   //DelayCmplx(const arr_cmplx&) does not compile (brace initialisation), a compile-time fact
            use(dc.process(AC(nx)));
            use(dc(AC(nx)));
        });
    });
    reg("median", [](V& v) {
        const int n = v.pick({1, 2, 3, 4, 5, 6, 7, 8, 9, 12, 16, 33});
        const int nx = v.pick({0, 1, 2, 3, 8, 9, 10, 50, 300});
        const int rep = v.choose(8);
        v.run([=] {
            arr_real x = AR(nx, 1000 + uint64_t(rep));
            tolerate([&] { use(dl::medfilt(x, n)); });
            dl::MedianFilter f(n, 1.5);
            use(f.process(x));
            use(f(AR(1, uint64_t(rep))));
            use(f(x));
            use(f.process(AR(nx / 2 + 1, 2000 + uint64_t(rep))));
            use(double(f.order()));
        });
    });
    reg("hilbert_filter", [](V& v) {
        const int fl = v.pick({1, 2, 3, 4, 31, 32});
        const int tw = v.choose(4);
        const int nx = v.pick({0, 1, 30, 100});
        v.run([=] {
            const double tws[4] = {0.001, 0.01, 0.1, 0.45};
            dl::HilbertFilter h(fl, tws[tw]);
            use(h.process(AR(nx)));
            use(h(AR(1)));
            use(h(AR(nx)));
            use(h.impz());
            tolerate([&] { dl::HilbertFilter bad(AR(fl)); use(bad(AR(4))); });
            use(dl::HilbertFilter::design_fir(fl, 8000.0, 100.0));
        });
    });
    reg("tuner_agc", [](V& v) {
        const int fs = v.pick({1, 2, 8, 8000});
        const int fq = v.choose(5);
        const int nx = v.pick({0, 1, 9, 100});
        v.run([=] {
            const double f[5] = {0.0, 0.5 * fs, -0.5 * fs, 0.3 * fs, 0.7 * fs};
            tolerate([&] {
                dl::Tuner t(fs, f[fq]);
                use(t.process(AC(nx)));
                use(t(AC(nx)));
                use(t.freq() + t.sample_rate());
            });
            dl::Agc a(1.0, 60.0, std::max(1, nx), 0.01, 0.02);
            use(a.process(AR(nx)).out);
            use(a.process(AC(nx)).gain);
            use(a(AR(3)).out);
            tolerate([&] { dl::Agc bad(1.0, 60.0, 0); use(bad.process(AR(3)).out); });
        });
    });

    // ---- lms / rls ----
    reg("adaptive", [](V& v) {
        const int L = v.pick({1, 2, 3, 16});
        const int nx = v.pick({0, 1, 15, 16, 17, 40});
        const int nd = v.len(nx);
        const int kind = v.choose(6);
        v.run([=] {
            switch (kind) {
            case 0: {
                dl::LmsFilterR f(L, 0.05);
                tolerate([&] { use(f.process(AR(nx), AR(nd)).e); });
                use(f(AR(nx), AR(nx)).y);
                f.set_lock_coeffs(true);
                use(f(AR(5), AR(5)).y);
                use(f.coeffs());
                break;
            }
            case 1: {
                dl::LmsFilterC f(L, 0.5, dl::LmsType::NLMS, 0.99);
                tolerate([&] { use(f.process(AC(nx), AC(nd)).e); });
                use(f(AC(nx), AC(nx)).y);
                use(f.coeffs());
                break;
            }
            case 2: {
                dl::LmsFilterR f(L, 0.5, dl::LmsType::NLMS);
                tolerate([&] { use(f.process(AR(nx), AR(nd)).e); });
                use(f(AR(nx), AR(nx)).e);
                break;
            }
            case 3: {
                dl::RlsFilterR f(L, 0.98, 10.0);
                tolerate([&] { use(f.process(AR(nx), AR(nd)).e); });
                use(f(AR(nx), AR(nx)).y);
                f.set_lock_coeffs(true);
                use(f(AR(5), AR(5)).y);
                use(f.coeffs());
                break;
            }
            case 4: {
                dl::RlsFilterC f(L, 1.0, 1.0);
                tolerate([&] { use(f.process(AC(nx), AC(nd)).e); });
                use(f(AC(nx), AC(nx)).y);
                break;
            }
            default: {
                dl::RlsFilterR f(L);
                use(f(AR(nx), AR(nx)).e);
                break;
            }
            }
        });
    });

    // ---- spectrum / stft / xcorr / detector / snr / awgn / random / window / audio ----
    reg("welch_mscohere", [](V& v) {
        const int wl = v.pick({1, 2, 3, 16, 20});
        const int nx = v.pick({0, 1, 15, 16, 17, 100});
        const int ov = v.pick({0, 1, 15, 16, 40});
        const int nfft = v.pick({1, 2, 16, 32, 24});
        const int f = v.choose(6);
        v.run([=] {
            switch (f) {
            case 0: use(dl::welch(AR(nx), wl, ov, nfft).pxx); break;
            case 1: use(dl::welch(AC(nx), wl, ov, nfft, dl::SpectrumType::Power).f); break;
            case 2: use(dl::welch(AR(nx), wl).pxx); use(dl::welch(AC(nx), wl).pxx); break;
            case 3: use(dl::welch(AR(nx), dl::ones(wl)).pxx); use(dl::welch(AC(nx), dl::ones(wl), dl::SpectrumType::Power).pxx); break;
            case 4: use(dl::mscohere(AR(nx), AR(nx, 3), wl, ov, nfft)); break;
            default: use(dl::mscohere(AR(nx), AR(nx + 1, 3), wl)); use(dl::mscohere(AR(nx), AR(nx, 3), dl::ones(wl))); break;
            }
        });
    });
    reg("stft_istft", [](V& v) {
        const int nfft = v.pick({2, 4, 8, 12, 15, 16});
        const int nwin = v.pick({1, 2, 8, 16, 17});
        const int ov0 = v.pick({0, 1, 7, 8, 16});
        const int nx = v.pick({0, 1, 16, 50});
        const int bad = v.choose(5);
        const int ov = std::min(ov0, std::max(nwin, 1) - 1);   //documented range: overlap < window length
        v.run([=] {
            const arr_real win = dl::window::hann(std::max(nwin, 1), false);
            std::vector<arr_cmplx> S;
            tolerate([&] { S = dl::stft(AR(nx), win, ov, nfft, dl::StftRange::Onesided); });
            tolerate([&] { use(double(dl::stft(AR(nx), nfft, dl::StftRange::Centered).size())); });
            tolerate([&] { use(double(dl::iscola(win, ov)) + double(dl::iscola(win, ov, dl::OverlapMethod::Wola))); });
            //frames of wrong size
            std::vector<arr_cmplx> F;
            const int want = nfft / 2 + 1;
            const int sz[5] = {want, want - 1, want + 1, nfft, 0};
            for (int i = 0; i < 3; ++i) {
                F.push_back(AC(std::max(0, sz[bad])));
            }
            tolerate([&] { use(dl::istft(F, win, ov, nfft, dl::StftRange::Onesided)); });
            tolerate([&] { use(dl::istft(F, win, ov, nfft, dl::StftRange::Twosided, dl::OverlapMethod::Ola)); });
            tolerate([&] { use(dl::istft(F, win, ov, nfft, dl::StftRange::Centered)); });
            tolerate([&] { use(dl::istft(S, win, ov, nfft)); });
            tolerate([&] { use(dl::istft(std::vector<arr_cmplx>{}, win, ov, nfft)); });
            use(dl::istft(dl::stft(AR(64), 16), 16));
        });
    });
    reg("xcorr", [](V& v) {
        const int n1 = v.pick({0, 1, 2, 17, 64});
        const int n2 = v.pick({0, 1, 3, 64, 100});
        const int f = v.choose(4);
        v.run([=] {
            switch (f) {
            case 0: use(dl::xcorr(AR(n1), AR(n2))); break;
            case 1: use(dl::xcorr(AC(n1), AC(n2))); break;
            case 2: use(dl::xcorr(AR(n1))); break;
            default: use(dl::xcorr(AC(n2))); break;
            }
        });
    });
    reg("detector", [](V& v) {
        const int nh = v.pick({1, 2, 16, 63});
        const int rel = v.choose(6);
        v.run([=] {
            dl::PreambleDetector d(AC(nh), 0.5);
            const int fl = d.frame_len();
            const int lens[6] = {fl, 0, 1, fl - 1, fl + 1, 2 * fl};
            tolerate([&] { use(double(d.process(AC(lens[rel])).has_value())); });
            d.reset();
            const auto r = d(AC(fl) | AC(nh) | AC(fl - nh));
            use(double(r.has_value()));
            const auto r2 = d(AC(fl));
            use(double(r2.has_value() ? r2->offset : -1));
        });
    });
    reg("snr_family", [](V& v) {
        const int n = v.pick({1, 2, 3, 4, 7, 8, 64, 1000});
        const int nh = v.pick({1, 2, 6, 40});
        const int f = v.choose(5);
        v.run([=] {
            arr_real x = AR(n);
            for (int i = 0; i < n; ++i) {
                x[i] = x[i] * 0.01 + std::sin(0.7 * i);
            }
            switch (f) {
            case 0: use(dl::sinad(x)); break;
            case 1: use(dl::snr(x, nh)); use(dl::snr(x, nh, true)); break;
            case 2: use(dl::thd(x, nh).value); break;
            case 3: use(dl::thd(dl::abs(x), nh, true, dl::SinadType::Psd).harmfreq); break;
            default: use(dl::sinad(dl::abs(x), dl::SinadType::Power)); use(dl::snr(dl::abs(x), nh, false, dl::SinadType::Psd)); break;
            }
        });
    });
    reg("awgn_random", [](V& v) {
        const int n = v.pick({0, 1, 2, 100});
        const int lo = v.pick({-5, 0, 1, 7});
        const int hi = v.pick({-5, 0, 1, 7, 100});
        v.run([=] {
            dl::rng(n);
            if (n > 0) {
                use(dl::awgn(AR(n), 10.0)); use(dl::awgn(AC(n), -3.0));
            }
            use(dl::rand(n)); use(dl::randn(n)); use(dl::rand()); use(dl::randn());
            use(dl::rand({double(lo), double(lo) + 1.0}, n));
            if (lo <= hi) {
                use(double(dl::randi({lo, hi}))); use(double(dl::randi({lo, hi}, n).size()));
            }
            if (hi >= 1) {
                use(double(dl::randi(hi))); use(double(dl::randi(hi, n).size()));
            }
        });
    });
    reg("windows", [](V& v) {
        const int n = v.pick({1, 2, 3, 4, 5, 64});
        const int w = v.choose(8);
        const int sym = v.choose(2);
        v.run([=] {
            namespace W = dl::window;
            switch (w) {
            case 0: use(W::cosine(n, sym)); break;
            case 1: use(W::hann(n, sym)); break;
            case 2: use(W::hamming(n, sym)); break;
            case 3: use(W::blackman(n, sym)); break;
            case 4: use(W::gauss(n, 2.5, sym)); use(W::gauss(n, 0.5, sym)); break;
            case 5: use(W::blackmanharris(n, sym)); break;
            case 6: use(W::kaiser(n, 0.0)); use(W::kaiser(n, 40.0)); break;
            default: use(W::tukey(n, -0.5)); use(W::tukey(n, 0.0)); use(W::tukey(n, 0.5)); use(W::tukey(n, 1.0)); use(W::tukey(n, 1.5)); break;
            }
        });
    });
    reg("dynamics", [](V& v) {
        const int fs = v.pick({8000, 44100, 192000});
        const int thr = v.pick({-50, -10, 0, 5});
        const int ratio = v.pick({0, 1, 5, 50, 51});
        const int knee = v.pick({0, 10, 20, 21});
        const int at = v.choose(3);
        const int nx = v.pick({0, 1, 500});
        v.run([=] {
            const double att[3] = {0.0, 0.01, 4.0};
            arr_real x = AR(nx);
            tolerate([&] { dl::Compressor c(fs, thr, ratio, knee, att[at], 0.2); use(c.process(x).out); use(c(x).gain); });
            tolerate([&] { dl::Limiter l(fs, thr, knee, att[at], 0.0); use(l.process(x).out); use(l(x).gain); });
            tolerate([&] { dl::NoiseGate g(fs, thr, att[at], 0.02, att[at]); use(g.process(x).out); use(g(x).gain); });
            dl::Compressor c0; dl::Limiter l0; dl::NoiseGate g0;
            use(c0(x).out); use(l0(x).out); use(g0(x).out);
        });
    });
}

//------------------------------------------------------------------------------------------------
// fork runner
enum class Res
{
    Returned,
    Threw,
    BadOutcome,
    Hang
};

static std::string slurp(const std::string& p) {
    std::ifstream f(p);
    std::stringstream ss;
    ss << f.rdbuf();
    return ss.str();
}

static void on_step_budget(uint64_t) {
    _exit(42);
}

static std::string first_lib_frame(const std::string& txt) {
    std::istringstream is(txt);
    std::string line;
    std::string first;
    while (std::getline(is, line)) {
        const auto p = line.find(" in ");
        if (line.find("    #") != 0 || p == std::string::npos) {
            continue;
        }
        std::string fn = line.substr(p + 4);
        const auto sp = fn.find(" /");
        const bool lib = (fn.find("/repo/") != std::string::npos) || (fn.find("dsplib::") != std::string::npos);
        if (sp != std::string::npos) {
            fn = fn.substr(0, sp);
        }
        const auto par = fn.find('(');
        if (par != std::string::npos) {
            fn = fn.substr(0, par);
        }
        //strip template arguments
        std::string out;
        int depth = 0;
        for (char c : fn) {
            if (c == '<') {
                ++depth;
            } else if (c == '>') {
                --depth;
            } else if (depth == 0) {
                out += c;
            }
        }
        if (first.empty()) {
            first = out;
        }
        if (lib && out.find("C05_") == std::string::npos && out.find("operator()") == std::string::npos && out.find("lambda") == std::string::npos) {
            return out;
        }
    }
    return first.empty() ? "?" : first;
}

//first dsplib frame of a valgrind report ("==pid==    at 0x...: fn(args) (file:line)")
static std::string vg_first_lib_frame(const std::string& txt) {
    std::istringstream is(txt);
    std::string line;
    std::string first;
    while (std::getline(is, line)) {
        auto p = line.find(" at 0x");
        if (p == std::string::npos) {
            p = line.find(" by 0x");
        }
        if (p == std::string::npos) {
            if (!first.empty() && line.find_first_not_of("=0123456789 ") == std::string::npos) {
                break;   //end of the first stack
            }
            continue;
        }
        const auto c = line.find(": ", p);
        if (c == std::string::npos) {
            continue;
        }
        std::string fn = line.substr(c + 2);
        for (auto an = fn.find("(anonymous namespace)::"); an != std::string::npos; an = fn.find("(anonymous namespace)::")) {
            fn.erase(an, 23);
        }
        const auto par = fn.find('(');
        if (par != std::string::npos) {
            fn = fn.substr(0, par);
        }
        std::string out;
        int depth = 0;
        for (char ch : fn) {
            if (ch == '<') {
                ++depth;
            } else if (ch == '>') {
                --depth;
            } else if (depth == 0) {
                out += ch;
            }
        }
        while (!out.empty() && out.back() == ' ') {
            out.pop_back();
        }
        if (first.empty()) {
            first = out;
        }
        if (out.find("dsplib::") != std::string::npos) {
            return out;
        }
    }
    return first.empty() ? "?" : first;
}

static bool g_memcheck = false;

struct Outcome5
{
    Res res;
    std::string kind;
    std::string detail;
};

static Outcome5 run_child(const std::function<void()>& body, const std::string& errfile, int watchdog_s) {
    fflush(stdout);
    fflush(stderr);
    const pid_t pid = fork();
    if (pid < 0) {
        return {Res::BadOutcome, "fork_failed", ""};
    }
    if (pid == 0) {
        const int fd = open(errfile.c_str(), O_WRONLY | O_CREAT | O_TRUNC, 0644);
        if (fd >= 0) {
            dup2(fd, 2);
            dup2(fd, 1);
            close(fd);
        }
        auto& st = dl::verif::step_state();
        st.steps = 0;
        st.budget = 0;
        st.on_budget = on_step_budget;
        int code = 0;
        try {
            body();
        } catch (const std::exception&) {
            code = 10;
        } catch (...) {
            code = 11;
        }
        _exit(code);
    }
    int status = 0;
    struct timespec t0;
    clock_gettime(CLOCK_MONOTONIC, &t0);
    long sleep_ns = 20000;
    bool hang = false;
    for (;;) {
        const pid_t r = waitpid(pid, &status, WNOHANG);
        if (r == pid) {
            break;
        }
        struct timespec t1;
        clock_gettime(CLOCK_MONOTONIC, &t1);
        if ((t1.tv_sec - t0.tv_sec) > watchdog_s * (g_memcheck ? 8 : 1)) {
            kill(pid, SIGKILL);
            waitpid(pid, &status, 0);
            hang = true;
            break;
        }
        struct timespec ts{0, sleep_ns};
        nanosleep(&ts, nullptr);
        if (sleep_ns < 2000000) {
            sleep_ns *= 2;
        }
    }
    const std::string asanlog = vh::g.out + ".asan." + std::to_string(pid);
    std::string txt = slurp(asanlog);
    unlink(asanlog.c_str());
    std::string vg;
    if (g_memcheck) {
        const std::string vglog = vh::g.out + ".vg." + std::to_string(pid);
        vg = slurp(vglog);
        unlink(vglog.c_str());
    }
    if (hang) {
        return {Res::Hang, "hang", ""};
    }
    if (!vg.empty()) {
        if (vg.find("cannot throw exceptions") != std::string::npos) {
            //valgrind's operator new aborts instead of throwing std::bad_alloc: equivalent to the allowed exception outcome
            return {Res::Threw, "bad_alloc(valgrind-intercepted)", ""};
        }
        static const char* const KINDS[][2] = {{"Invalid read of size", "invalid-read"},
                                               {"Invalid write of size", "invalid-write"},
                                               {"Conditional jump or move depends on uninitialised", "uninit-branch"},
                                               {"Use of uninitialised value", "uninit-use"},
                                               {"uninitialised byte", "uninit-syscall"},
                                               {"Invalid free", "bad-free"},
                                               {"Mismatched free", "bad-free"},
                                               {"Source and destination overlap", "overlap-memcpy"},
                                               {"Jump to the invalid address", "bad-jump"}};
        for (const auto& k : KINDS) {
            const auto p = vg.find(k[0]);
            if (p != std::string::npos) {
                return {Res::BadOutcome, std::string("memcheck:") + k[1] + "/" + vg_first_lib_frame(vg.substr(p)), vg.substr(0, 2500)};
            }
        }
    }
    if (WIFEXITED(status)) {
        const int c = WEXITSTATUS(status);
        if (c == 0) {
            return {Res::Returned, "", ""};
        }
        if (c == 10 || c == 11) {
            return {Res::Threw, c == 10 ? "std::exception" : "other exception", ""};
        }
        if (c == 42) {
            return {Res::BadOutcome, "step_budget_exceeded", "the logical step counter of the integer helpers passed its budget (32*(sqrt(n)+64) per primality test)"};
        }
        txt += slurp(errfile);
        return {Res::BadOutcome, vh::fmt("exit%d", c), txt.substr(0, 1500)};
    }
    txt += slurp(errfile);
    std::string kind = vh::fmt("signal%d", WTERMSIG(status));
    {
        const auto p = txt.find("ERROR: AddressSanitizer: ");
        if (p != std::string::npos) {
            const auto e = txt.find_first_of(" \n", p + 25);
            const std::string k = txt.substr(p + 25, e - (p + 25));
            if (k == "out-of-memory" || k == "allocation-size-too-big" || k == "requested") {
                //ASan aborts instead of letting operator new throw std::bad_alloc: equivalent to the allowed exception outcome
                return {Res::Threw, "bad_alloc(asan-intercepted)", ""};
            }
            kind = "asan:" + k + "/" + first_lib_frame(txt.substr(p));
        } else {
            const auto q = txt.find("runtime error: ");
            if (q != std::string::npos) {
                std::string k = txt.substr(q + 15, txt.find('\n', q) - (q + 15));
                std::string kk;
                for (char c : k) {
                    kk += (c >= '0' && c <= '9') ? 'N' : c;
                }
                kind = "ubsan:" + kk.substr(0, 50) + "/" + first_lib_frame(txt.substr(q));
            } else if (txt.find("terminate called") != std::string::npos) {
                kind = "std::terminate";
            } else if (txt.find("AddressSanitizer:DEADLYSIGNAL") != std::string::npos || txt.find("SEGV") != std::string::npos) {
                kind = "asan:SEGV/" + first_lib_frame(txt);
            }
        }
    }
    return {Res::BadOutcome, kind, txt.substr(0, 1800)};
}

static std::map<std::string, int> g_hangs;   //per template: confirmed hangs in this shard

static void run_case(const Tmpl& t, uint64_t code, const std::string& errfile) {
    if (g_hangs[t.name] >= 2) {
        //two variants of this template already hung (each costs two watchdog periods): the verdict is in, the rest is skipped
        vh::skip("variants_of_a_template_that_already_hung_twice");
        return;
    }
    V v;
    v.counting = false;
    v.code = code;
    v.seed = code;
    t.fn(v);
    if (v.dup || !v.body) {
        return;
    }
    //every third variant runs with one NaN in each generated array, every other third with several non-finite / extreme entries
    g_poison = int((code + (code >> 7)) % 3);
    vh::begin_case(t.name.c_str(), "variant=%llu poison=%d:%s", (unsigned long long)code, g_poison, v.text.c_str());
    Outcome5 o = run_child(v.body, errfile, 30);
    if (o.res == Res::Hang) {
        //inconclusive once: re-run in a fresh process before calling it a hang
        o = run_child(v.body, errfile, 60);
    }
    vh::Hasher h;
    h.s(t.name).u64(code);
    vh::count(h.get(), true);
    vh::obs_add(g_poison ? "cases_with_non_finite_array_entries" : "cases_with_finite_arrays");
    const int poison_used = g_poison;
    g_poison = 0;
    switch (o.res) {
    case Res::Returned:
        vh::obs_add("outcome_returned");
        break;
    case Res::Threw:
        vh::obs_add("outcome_threw");
        break;
    case Res::Hang:
        ++g_hangs[t.name];
        vh::obs_add("outcome_bad");
        vh::violation(vh::fmt("C05/%s/hang", t.name.c_str()), vh::fmt("template %s variant %llu (%s) did not finish within 30 s and again within 60 s", t.name.c_str(), (unsigned long long)code, v.text.c_str()));
        break;
    case Res::BadOutcome:
        vh::obs_add("outcome_bad");
        vh::violation(vh::fmt("C05/%s/%s", t.name.c_str(), o.kind.c_str()),
                      vh::fmt("template %s variant %llu (choices:%s; array contents: %s) ended with %s\n", t.name.c_str(), (unsigned long long)code, v.text.c_str(),
                              poison_used == 0 ? "finite" : (poison_used == 1 ? "one NaN per array" : "several non-finite / extreme entries"), o.kind.c_str()) + o.detail);
        break;
    }
}

int main(int argc, char** argv) {
    vh::init(argc, argv, "C05");
    register_templates();
    const bool thorough = vh::g.thorough();
    //under valgrind memcheck (a second opinion on the -O2 build) the same case generator runs a smaller sample
    g_memcheck = vh::opt("memcheck", "0") == "1";
    const std::string errfile = (vh::g.out.empty() ? std::string("/dev/null") : vh::g.out + ".childerr");
    uint64_t idx = 0;
    const uint64_t cap = g_memcheck ? (thorough ? 1500 : 40) : (thorough ? 20000 : 400);
    uint64_t total_variants = 0;
    for (const auto& t : g_tmpl) {
        total_variants += t.total;
        if (!vh::selected(t.name.c_str())) {
            continue;
        }
        if (t.total <= cap) {
            for (uint64_t c = 0; c < t.total; ++c) {
                if (vh::mine(idx++)) {
                    run_case(t, c, errfile);
                }
            }
        } else {
            vh::Rng r = vh::rng_for(t.name.c_str());
            for (uint64_t k = 0; k < cap; ++k) {
                const uint64_t c = r.below(t.total);
                if (vh::mine(idx++)) {
                    run_case(t, c, errfile);
                }
            }
        }
    }
    vh::obs_max("templates", double(g_tmpl.size()));
    vh::obs_max("total_variants_defined", double(total_variants));

    //random multi-call programs: several templates in one process (shared thread-local caches and generator state)
    const int nprog = g_memcheck ? (thorough ? 8000 : 100) : (thorough ? 100000 : 1500);
    for (int p = 0; p < nprog; ++p) {
        if (!vh::mine(idx++)) {
            continue;
        }
        vh::Rng r = vh::rng_for("prog", p);
        const int k = int(r.range(2, 5));
        std::vector<std::function<void()>> bodies;
        std::string text;
        std::string first;
        for (int i = 0; i < k; ++i) {
            const Tmpl& t = g_tmpl[r.below(g_tmpl.size())];
            V v;
            v.counting = false;
            v.code = r.below(t.total);
            v.seed = v.code;
            const uint64_t code = v.code;
            t.fn(v);
            if (v.dup || !v.body) {
                continue;
            }
            if (first.empty()) {
                first = t.name;
            }
            text += vh::fmt("%s#%llu ", t.name.c_str(), (unsigned long long)code);
            bodies.push_back(v.body);
        }
        if (bodies.empty()) {
            continue;
        }
        g_poison = int(r.below(3));
        text += vh::fmt("[poison=%d]", g_poison);
        vh::begin_case("program", "%s", text.c_str());
        auto all = [bodies] {
            for (const auto& b : bodies) {
                try {
                    b();
                } catch (const std::exception&) {
                }
            }
        };
        Outcome5 o = run_child(all, errfile, 60);
        if (o.res == Res::Hang) {
            o = run_child(all, errfile, 120);
        }
        vh::Hasher h;
        h.s("prog").s(text);
        vh::count(h.get(), true);
        vh::obs_add("programs_run");
        g_poison = 0;
        if (o.res == Res::Hang) {
            vh::violation("C05/program/hang", "program [" + text + "] did not finish");
        } else if (o.res == Res::BadOutcome) {
            vh::violation(vh::fmt("C05/program/%s", o.kind.c_str()), "program [" + text + "] ended with " + o.kind + "\n" + o.detail);
        }
        if (p < 3) {
            vh::sample("program: " + text);
        }
    }
    vh::sample("template fftplan_solve_len: plan length n in {1,2,3,4,8,12,15,16,17,41,43,64,97,360,1024} x input length in {n,0,1,2,3,n-1,n+1,2n} x {FftPlan,FftPlanR,IfftPlan,pointer overload}");
    unlink(errfile.c_str());
    return vh::finish();
}
