"""Configuration of the checks: library flavours and, per property, the monitor programs to run."""

SAN = "-fsanitize=address,undefined -fno-sanitize-recover=all -fno-omit-frame-pointer"

FLAVOURS = {
    # the shipped configuration: RelWithDebInfo = -O2 -g -DNDEBUG (asserts off, DSPLIB_ASSUME live)
    "plain": dict(cxxflags=""),
    "asan": dict(cxxflags=SAN, harness_opt="-O1"),
    "tsan": dict(cxxflags="-fsanitize=thread", harness_opt="-O1"),
    "cache1": dict(cxxflags="", cmake=["-DDSPLIB_FFT_CACHE_SIZE=1"]),
    "cache2": dict(cxxflags="", cmake=["-DDSPLIB_FFT_CACHE_SIZE=2"]),
}

CHECKS = {}


def check(pid, **kw):
    CHECKS[pid] = kw


check(
    "C01",
    runs=[dict(harness="C01_fft", flavour="plain")],
    rule=("every transform length n (quick: all n<=1024 plus one seeded residue class of 1025..4096 and sampled large n; "
          "thorough: all n<=4096 plus sampled n up to 2^17) x 8 input classes x {fft complex, fft real, plans (array and "
          "pointer overloads), rfft}; pad/truncate targets; czt over random (n,m,w,a). One evaluation = one transform result "
          "compared with the long-double DFT of the same samples (relative l2 error <= 32*n*eps); non-trivial = input has "
          "non-zero norm; distinct = hash of (entry point, n, input bits)."),
    exhaustive_subspaces={"quick": ["all lengths 1..1024 x 8 input classes x 4 entry points", "pad/truncate targets 1..2n for n<=24"],
                          "thorough": ["all lengths 1..4096 x 8 input classes x 4 entry points", "pad/truncate targets 1..2n for n<=48"]},
    min_distinct={"quick": 20000, "thorough": 100000},
    technique="runtime monitor: differential oracle against a long-double DFT over enumerated lengths and input classes",
    level_text=("Every length 1..4096 (thorough; 1..1024 + a residue class in quick) and sampled lengths to 2^17 are executed "
                "through every forward-transform entry point and each result is compared with an extended-precision DFT; held on "
                "the K executions listed in the evidence, which also records which planner path each length reached."),
    level_note="trusted: x87 long double arithmetic and libm cosl/sinl; gcc 12; the reference FFT used above n=2048 is spot-checked per use",
    assumptions=["long double (x87, 64-bit mantissa) DFT is the reference; for n>2048 the reference FFT is itself spot-checked "
                 "against the O(n) definition on 32 bins per use",
                 "lengths above 2^17 and inputs outside the listed classes are not observed"],
)
