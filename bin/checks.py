"""Configuration of the checks: library flavours and, per property, the monitor programs to run."""

# nonnull-attribute is excluded: it only reports memcpy/memmove(ptr, NULL, 0) on empty arrays, which every libc defines
# (and C2y makes well defined); a real null access still faults under ASan.
SAN = "-fsanitize=address,undefined -fno-sanitize=nonnull-attribute -fno-sanitize-recover=all -fno-omit-frame-pointer"

FLAVOURS = {
    # the shipped configuration: RelWithDebInfo = -O2 -g -DNDEBUG (asserts off, DSPLIB_ASSUME live)
    "plain": dict(cxxflags=""),
    "asan": dict(cxxflags=SAN, harness_opt="-O1"),
    "tsan": dict(cxxflags="-fsanitize=thread", harness_opt="-O1"),
    "cache1": dict(cxxflags="", cmake=["-DDSPLIB_FFT_CACHE_SIZE=1"]),
    "cache2": dict(cxxflags="", cmake=["-DDSPLIB_FFT_CACHE_SIZE=2"]),
}

CHECKS = {}


def check(pid, **kw):
    CHECKS[pid] = kw


check(
    "C01",
    runs=[dict(harness="C01_fft", flavour="plain"),
          # thorough only: the quick workload once more on the ASan+UBSan build (same oracles; any sanitizer report is a violation)
          dict(harness="C01_fft", flavour="asan", tiers=("thorough",), harness_tier="quick", timeout={"quick": 3600, "thorough": 14400})],
    rule=("every transform length n (quick: all n<=1024 plus one seeded residue class of 1025..4096 and sampled large n; "
          "thorough: all n<=4096 plus sampled n up to 2^17) x 8 input classes x {fft complex, fft real, plans (array and "
          "pointer overloads), rfft}; pad/truncate targets; czt over random (n,m,w,a). One evaluation = one transform result "
          "compared with the long-double DFT of the same samples (relative l2 error <= 32*n*eps); non-trivial = input has "
          "non-zero norm; distinct = hash of (entry point, n, input bits). Round-6 additions: czt start points exactly on the unit circle and on the axes; padding histories (the same target length from shrinking inputs, fft and rfft)."),
    exhaustive_subspaces={"quick": ["all lengths 1..1024 x 8 input classes x 4 entry points", "pad/truncate targets 1..2n for n<=24"],
                          "thorough": ["all lengths 1..4096 x 8 input classes x 4 entry points", "pad/truncate targets 1..2n for n<=48"]},
    min_distinct={"quick": 20000, "thorough": 100000},
    technique="runtime monitor: differential oracle against a long-double DFT over enumerated lengths and input classes; thorough: the quick workload repeated on the ASan+UBSan build",
    level_text=("Every length 1..4096 (thorough; 1..1024 + a residue class in quick) and sampled lengths to 2^17 are executed "
                "through every forward-transform entry point and each result is compared with an extended-precision DFT; held on "
                "the K executions listed in the evidence, which also records which planner path each length reached."),
    level_note="trusted: x87 long double arithmetic and libm cosl/sinl; gcc 12; the reference FFT used above n=2048 is spot-checked per use",
    assumptions=["long double (x87, 64-bit mantissa) DFT is the reference; for n>2048 the reference FFT is itself spot-checked "
                 "against the O(n) definition on 32 bins per use",
                 "lengths above 2^17 and inputs outside the listed classes are not observed"],
)

check(
    "C02",
    runs=[dict(harness="C02_inverse", flavour="plain"),
          # thorough only: the quick workload once more on the ASan+UBSan build (same oracles; any sanitizer report is a violation)
          dict(harness="C02_inverse", flavour="asan", tiers=("thorough",), harness_tier="quick", timeout={"quick": 3600, "thorough": 14400})],
    rule=("ifft/IfftPlan for every n (quick: n<=1024 + a residue class of ..8192; thorough: all n<=8192, three inputs each) against the long-double inverse "
          "DFT and as round trip; irfft/IfftPlanR for every even n in both input forms (full spectrum, first n/2+1 bins) against the real "
          "signal whose exact DFT was supplied, odd n must throw; stft->istft for every (window of 11 kinds, overlap, nfft, range, method) "
          "accepted by iscola, on signals whose length is not hop aligned, judged per sample where the accumulated window weight is "
          "non-zero (tolerance 64*eps*log2(nfft)*max|x| amplified by sum|w|^(p-1)/weight; samples whose tolerance would exceed 1e-3*max|x| are counted, not judged), and all samples must be finite; iscola cross-checked against a long-double overlap sum. distinct = hash of "
          "(entry point, configuration, input bits). Round-6 additions: structured signals/spectra for ifft (real, real + constant or alternating imaginary part, impulse, constant); a quarter of the stft signals at levels 1e-250..1e250."),
    exhaustive_subspaces={"quick": ["ifft/irfft: all n<=1024", "stft: all overlaps 0..nwin-1 for nwin<=64 x 11 windows x 2 methods x 3 ranges"],
                          "thorough": ["ifft: all n<=8192; irfft: all even n<=8192, all odd n rejected", "stft: all overlaps 0..nwin-1 for nwin<=128 x 11 windows x 2 methods x 3 ranges"]},
    min_distinct={"quick": 20000, "thorough": 150000},
    min_obs={"quick": {"cola_pairs_accepted": 100, "odd_rejections_seen": 500}, "thorough": {"cola_pairs_accepted": 100, "odd_rejections_seen": 2000}},
    technique="runtime monitor: long-double inverse-DFT oracle, exception monitor for odd n, per-sample reconstruction oracle with harness-computed window weights; thorough: the quick workload repeated on the ASan+UBSan build",
    level_text=("Every inverse-transform entry point is executed for every length in the stated ranges and compared with an "
                "extended-precision reference; every iscola-accepted STFT configuration of the grid is round-tripped and judged sample "
                "by sample. Held on the executions counted in the evidence."),
    level_note="trusted: long double reference DFT; the harness's own computation of the overlap-add weight; gcc/libm",
    assumptions=["STFT grid limited to the listed nfft/window kinds; kaiser periodic variant emulated as the first n points of kaiser(n+1)"],
)

check(
    "C03",
    runs=[dict(harness="C03_arith", flavour="plain"),
          dict(harness="C03_arith", flavour="asan", tiers=("quick", "thorough")),
          # thorough only: the quick workload once more on the shipped -O2 build under valgrind memcheck (definedness, accesses past red zones)
          dict(harness="C03_arith", flavour="plain", wrapper="memcheck", tiers=("thorough",), harness_tier="quick",
               timeout={"quick": 3600, "thorough": 14400})],
    rule=("random programs of 1..6 operator applications over a pool of two real and two complex arrays (length 0..64 mostly, sampled "
          "to 10^4; values from {0,-0,+-1,+-i, log-uniform 1e-100..1e100}); 34 statement kinds cover every accepted operator x operand "
          "type combination (array/array, array/scalar, scalar/array, compound, aliasing a op= a, a = a op a, unary, copy). One "
          "evaluation = one operator application judged element-wise against the long-double field formula (4*eps*M) with bitwise "
          "operand snapshots; plus mask/index-list selection, concatenation, zeropad and length-mismatch cases. products and quotients additionally per component (4/8 eps times the sum of the magnitudes of that component's two products); non-trivial = "
          "non-empty arrays; distinct = hash of (combination, operator, length, leading operand bits). Round-6 additions: every application and every mismatch case is repeated with genuine temporaries (rvalues) on the left, the right and both sides."),
    min_distinct={"quick": 20000, "thorough": 300000},
    technique="runtime monitor: per-operation scalar interpreter in long double complex + bitwise value-semantics snapshots, repeated under ASan/UBSan (thorough: also under valgrind memcheck on the -O2 build)",
    level_text=("Each operator application of the generated programs is compared with the textbook formula evaluated in extended "
                "precision and every operand is compared bitwise with its snapshot; the same workload is repeated under "
                "AddressSanitizer+UBSan. Held on the applications counted in the evidence."),
    level_note="trusted: long double arithmetic; the result-type table is enforced by static_assert when the harness is compiled",
    assumptions=["arr_int arithmetic and magnitudes beyond 1e+-100 are not claimed (skipped and counted)",
                 "combinations the headers reject at compile time (complex into real compound assignment) cannot be observed at run time"],
)

check(
    "C04",
    runs=[dict(harness="C04_slice", flavour="asan", opts={"bigscale": "0.25"}),
          dict(harness="C04_slice", flavour="plain"),
          # thorough only: the quick workload on the shipped -O2 build under valgrind memcheck
          dict(harness="C04_slice", flavour="plain", wrapper="memcheck", tiers=("thorough",), harness_tier="quick",
               opts={"bigscale": "0.1"}, timeout={"quick": 3600, "thorough": 14400})],
    rule=("exhaustive (n,i1,i2,step) with n in 0..10, i1,i2 in [-n-3,n+3], step in [-5,5] for real and complex arrays, mutable and const, "
          "plus the end placeholder: throw/no-throw against the statement's rules, nine read forms (array from slice, *slice, iteration, "
          "copies of slice_t/const_slice_t, const_slice_t(slice_t)) against the Python index list, and writes of scalar / array / "
          "initializer list / foreign strided slice (mutable and const) of every length relation into sentinel-filled arrays; every "
          "pair (dst slice, src slice) of equal count on one array (n<=6 quick + 1/16 sample of n=7,8; n<=8 thorough); random tuples for n up to 1e5. "
          "Run under ASan+UBSan and plain. non-trivial = valid non-empty slice; distinct = hash of the tuple / pair. Round-6 additions: postfix-increment, dereference-and-advance and backward iterator walks; strides INT_MAX, INT_MIN and neighbours on big arrays."),
    exhaustive_subspaces={"quick": ["all (n<=10, i1, i2, step) tuples x {real,complex} x {mutable,const,end}", "all aliasing slice pairs for n<=6"],
                          "thorough": ["all (n<=10, i1, i2, step) tuples x {real,complex} x {mutable,const,end}", "all aliasing slice pairs for n<=8"]},
    min_distinct={"quick": 20000, "thorough": 100000},
    technique="runtime monitor: Python slice.indices reference + sentinel-array write oracle, under AddressSanitizer/UBSan (thorough: also under valgrind memcheck on the -O2 build)",
    level_text=("The complete small tuple space of the quantifier is executed (reads, writes of every right-hand-side kind and length, "
                "all aliasing pairs) against an index-list reference while ASan watches the array's heap block; held on the "
                "evaluations counted in the evidence."),
    level_note="trusted: the 25-line Python-slice reference in the harness; ASan red zones only see accesses outside the array's heap block",
    assumptions=["x.slice(0,n) = x (same object) throws by design and is not judged either way",
                 "index magnitudes beyond +-(n+3) are not driven"],
)

check(
    "C05",
    runs=[dict(harness="C05_misuse", flavour="asan", forks=True, timeout={"quick": 1800, "thorough": 14400}),
          # second opinion on the shipped -O2 build: a sample of the same programs under valgrind memcheck (uninitialised-value use,
          # accesses beyond ASan's red zones)
          dict(harness="C05_misuse", flavour="plain", forks=True, wrapper="memcheck", timeout={"quick": 1800, "thorough": 14400})],
    rule=("a table of call templates covering the public entry points of include/dsplib/*.h; each template enumerates boundary variants "
          "(array lengths from {0,1,2,3,n-1,n,n+1,2n} relative to the expected length, index lists with entries in -n..n+2 / duplicates / "
          "empty, slice right-hand sides of every length, wrong-length plan inputs, wrong frame sizes) and includes reuse of the object "
          "after a rejected call; quick runs every variant (templates with more than 400 variants: a seeded sample of 400) plus 1500 random "
          "multi-call programs, thorough up to 20000 variants per template plus 1e5 programs. One evaluation = one forked child of the "
          "ASan+UBSan NDEBUG build; allowed outcomes: normal return or C++ exception. distinct = (template, variant code). Round-6 additions: two thirds of the cases generate arrays with one NaN or with several non-finite / extreme entries; a wider median-filter template (orders 1..33, 8 input draws)."),
    min_distinct={"quick": 5000, "thorough": 50000},
    min_obs={"quick": {"outcome_returned": 1000, "outcome_threw": 300}, "thorough": {"outcome_returned": 1000, "outcome_threw": 300}},
    technique="runtime monitor: fork-per-case execution under AddressSanitizer+UBSan (NDEBUG, DSPLIB_ASSUME live), exit-status classifier, logical step budget hook, watchdog with re-run; a sample of the same programs under valgrind memcheck on the -O2 build",
    level_text=("Each generated call program is executed in its own process of the sanitized shipped configuration and classified by "
                "exit status / sanitizer report; termination is decided on the step-counter hook where one exists and otherwise by a "
                "generous watchdog with one re-run. Held on the programs counted in the evidence."),
    level_note="trusted: gcc ASan/UBSan (red-zone detection misses non-adjacent and intra-object overflows); ASan's out-of-memory abort is counted as std::bad_alloc",
    assumptions=["numeric parameters are kept inside the documented ranges; array lengths, index entries and right-hand-side lengths are free",
                 "valgrind's abort on a failed operator new ('cannot throw exceptions') is likewise treated as std::bad_alloc; the memcheck run covers 40 (quick) / 1500 (thorough) variants per template and 100 / 8000 programs",
                 "an ASan 'out-of-memory/allocation-size-too-big' abort is treated as the std::bad_alloc it replaces"],
)

check(
    "C06",
    runs=[dict(harness="C06_framing", flavour="plain"),
          dict(harness="C06_framing", flavour="asan", opts={"kmax": "7", "scale": "0.5"}),
          # thorough only: a reduced quick workload on the shipped -O2 build under valgrind memcheck (state carried between frames
          # must never be read before it was written)
          dict(harness="C06_framing", flavour="plain", wrapper="memcheck", tiers=("thorough",), harness_tier="quick",
               opts={"kmax": "8", "scale": "1"}, timeout={"quick": 3600, "thorough": 14400})],
    rule=("each of ~115 processor configurations (FirFilter R/C, FftFilter R/C, FIRDecimator, FIRInterpolator, FIRRateConverter incl. 160/441 "
          "and 147/160, FIRResampler, Delay R/C, MedianFilter, MAFilter R/C, HilbertFilter, Tuner, Agc R/C, Compressor, Limiter, NoiseGate, "
          "LMS/NLMS R/C, RLS R/C with lock toggles on sample indices): every composition of k granules (k<=9 quick, k<=14 thorough; asan "
          "pass k<=7) and random heavy-tailed framings of streams up to 1e4 (quick) / 1e5 (thorough) samples, compared with one call on "
          "the whole stream by a fresh instance (equal output counts, |diff| <= 1e-12*scale); interleaved instances vs solo runs; for processors with a granule above one, calls of an inadmissible length are "
          "attempted between frames of the random framings and must be rejected without effect. "
          "non-trivial = framing with more than one frame; distinct = (configuration, framing). Round-6 additions: streams contain runs of exact zeros and of one constant value; FftFilter mixed overloads (complex taps / real frames and vice versa)."),
    exhaustive_subspaces={"quick": ["all 2^(k-1) framings of k<=9 granules per configuration"],
                          "thorough": ["all 2^(k-1) framings of k<=14 granules per configuration (k<=6 for granules above 500 samples)"]},
    min_distinct={"quick": 30000, "thorough": 1200000},
    min_obs={"quick": {"interleaved_instance_pairs": 100}, "thorough": {"interleaved_instance_pairs": 100}},
    technique="runtime monitor: differential check over framing histories (whole-stream run vs framed run of the same binary), plus instance-interleaving monitor; short part repeated under ASan (thorough: also under valgrind memcheck)",
    level_text=("All framings of short streams and random framings of long streams are executed for every processor configuration and "
                "compared sample for sample with the unframed run; held on the framings counted in the evidence."),
    level_note="trusted: the adapters that slice the stream; comparison tolerance 1e-12 relative (bitwise disagreement is counted separately)",
    assumptions=["parameter grid as listed in harness/C06_framing.cpp; FftFilter is compared as concatenated output (its per-call count depends on block alignment)"],
)

check(
    "C07",
    runs=[dict(harness="C07_fir", flavour="plain"),
          # thorough only: the quick workload once more on the ASan+UBSan build (same oracles; any sanitizer report is a violation)
          dict(harness="C07_fir", flavour="asan", tiers=("thorough",), harness_tier="quick", timeout={"quick": 3600, "thorough": 14400})],
    rule=("FirFilter and FftFilter (real, complex) from rest for coefficient lengths 2..128, every FFT block boundary (2^k-2..2^k+2, k=7..10) "
          "and sampled lengths to 1024 (thorough: every length 2..1024), coefficient kinds {random, symmetric, sparse, single tap first/last}, input lengths around the block "
          "size and long inputs (2e4 quick / 1e5 thorough) with random, impulsive and 1e+-12 dynamic range content, against the long-double "
          "sum y[i]=sum conj(c[k]) x[i-k] (direct: max(8,m+4)*eps*sum|c||x| per sample; FFT: 64*eps*log2(fftlen)*sum|c|*max|x|), emitted count "
          "floor(len/block)*block and FftFilter == FirFilter on the emitted prefix; xcorr for all (n1,n2) in 1..48^2 (thorough 1..96^2) real and complex plus "
          "sampled pairs to 5000, every lag; MAFilter (n = 1..20 / 1..130 and powers of two to 1000, wide-dynamic-range and burst inputs) vs FirFilter(ones(n)/n) and vs the exact window mean, tolerance scaled by the largest of the last 2n inputs. Every FIR case is also fed as a stream of uneven frames (long, short, empty) against the same sums; half of the xcorr pairs live on independent scales 1e-10..1e10. distinct = hash of "
          "(configuration, coefficient and input bits). Round-6 additions: taps edited through the non-const coeffs() accessor between two calls; xcorr length pairs at every transform-size boundary (lag count 2^k-1..2^k+2, k=5..12)."),
    exhaustive_subspaces={"quick": ["xcorr: all length pairs (n1,n2) in 1..48 x 1..48, real and complex"],
                          "thorough": ["xcorr: all length pairs (n1,n2) in 1..96 x 1..96, real and complex", "every coefficient length 2..1024 x 11 input lengths x real/complex"]},
    min_distinct={"quick": 7000, "thorough": 35000},
    technique="runtime monitor: long-double evaluation of the defining convolution / correlation sums as oracle, direct-vs-FFT differential; thorough: the quick workload repeated on the ASan+UBSan build",
    level_text=("Filters and correlations are executed over the stated grid and each output sample is compared with the defining sum in "
                "extended precision with a rounding-error-model tolerance; held on the evaluations in the evidence."),
    level_note="trusted: long double reference sums; tolerances derived from the rounding analysis of the definitions (margins recorded in the evidence)",
    assumptions=["coefficient vectors of length 1 are outside the quantifier (2..1024)"],
)

check(
    "C08",
    runs=[dict(harness="C08_multirate", flavour="plain"),
          # thorough only: the quick workload once more on the ASan+UBSan build (same oracles; any sanitizer report is a violation)
          dict(harness="C08_multirate", flavour="asan", tiers=("thorough",), harness_tier="quick", timeout={"quick": 3600, "thorough": 14400})],
    rule=("all reduced L/M with L,M<=16 (thorough: <=24, seven coefficient lengths each) plus audio ratios (160/441, 441/160, 147/160, 160/147, 320/147, 147/320): FIRInterpolator / "
          "FIRDecimator / FIRRateConverter / FIRResampler with the default design and with random symmetric h of lengths that are and are "
          "not multiples of L or M; the integer phase c is found on a calibration input by exhaustive search (unique exact fit) and must then "
          "explain every output of further inputs (random, impulses, swept tone) under random framings in multiples of M "
          "(|y[i]-v[iM+c]| <= 16*eps*sum|g|*max|x|); output counts len*L/M; non-multiple frames must throw; resample(x,p,q) for every "
          "reduced p,q<=16 (thorough: 24) + audio + non-reduced ratios: no exception, length p'*ceil(len/q'), identity for p=q, LS-fitted alignment "
          "|tau|<=1 output sample and residual <= 1% for 1..3 tones. distinct = (configuration, input bits). Round-6 additions: twelve default-designed converters of different rates built one after another in every shard process."),
    exhaustive_subspaces={"quick": ["all reduced ratios L/M with L,M in 1..16 (159) + 8 audio ratios"], "thorough": ["all reduced ratios L/M with L,M in 1..16 (159) + 8 audio ratios"]},
    min_distinct={"quick": 2000, "thorough": 4000},
    min_obs={"quick": {"resample_accuracy_cases": 200, "non_multiple_frames": 300}, "thorough": {"resample_accuracy_cases": 400, "non_multiple_frames": 300}},
    technique="runtime monitor: long-double reference polyphase chain with phase calibrated once per configuration; least-squares tone fit for resample(); thorough: the quick workload repeated on the ASan+UBSan build",
    level_text=("Every converter configuration of the grid is executed on several inputs and framings and each output sample is compared "
                "with one fixed phase of the textbook chain evaluated in extended precision; resample() is judged on length, alignment and "
                "residual. Held on the outputs counted in the evidence."),
    level_note="trusted: long double chain reference; the default coefficient vector is taken from design_multirate_fir() as the given h",
    assumptions=["custom h are symmetric with positive-dominant taps so that sum(h) is well away from zero"],
)

check(
    "C09",
    runs=[dict(harness="C09_threads", flavour="tsan", shards=6, timeout={"quick": 1800, "thorough": 14400}),
          dict(harness="C09_threads", flavour="plain", shards=6, opts={"scale": "5"}, timeout={"quick": 1800, "thorough": 14400}),
          # thorough only: a reduced quick workload under valgrind helgrind (a second race detector with a different algorithm); only
          # reports with a dsplib frame are taken, helgrind does not model the monitor's own std::atomic counters
          dict(harness="C09_threads", flavour="plain", shards=6, wrapper="helgrind", tiers=("thorough",), harness_tier="quick",
               opts={"scale": "0.2"}, timeout={"quick": 3600, "thorough": 14400})],
    rule=("rounds of 2..16 threads released from a barrier; each thread runs a seeded random mix of (a) solve() on plan objects SHARED by all "
          "threads - FftPlan of every kind (small, radix-2, factor trees with prime / power-of-two / Bluestein leaves, direct prime, dft3), "
          "FftPlanR (even-packed, odd composite, prime), IfftPlan, IfftPlanR, CztPlan - created in the main thread, which keeps using the "
          "same sub-plans through its own cache, (b) thread-private fft/ifft/rfft/irfft over 15 lengths that hit and evict the per-thread "
          "caches, xcorr, FftFilter/FirFilter instances, welch, resample, hilbert, kaiser, fir1, (c) replays of an rng(seed) call script "
          "while other threads seed and draw; and, first in every process, a cold-start phase in which 4/8/12 threads make their FIRST calls of "
          "isprime/factor/nextprime/primes (arguments of growing magnitude 6e4..4e9, four barrier-released steps), fft/rfft of lengths that need "
          "new factorizations, windows, fir1, design_multirate_fir, resample, welch, xcorr, hilbert, medfilt/sort/median, corr, finddelay, thd/sinad "
          "and distinct filter/resampler/tuner/AGC objects at once, each result compared bitwise with the same call made sequentially AFTERWARDS "
          "(lazily built process-wide state is only racy on first use). Oracles: zero ThreadSanitizer reports (tsan build), every result equal to the sequential "
          "reference (1e-12 rel.), script values equal to the single-threaded ones. The yield hook is on in every second round; the plain "
          "build repeats the workload with 5x the iterations. non-trivial = round in which calls overlapped on a shared plan."),
    min_distinct={"quick": 32, "thorough": 400},
    min_obs={"quick": {"overlapping_calls_on_shared_plans": 5000, "cold_start_calls_compared": 4000},
             "thorough": {"overlapping_calls_on_shared_plans": 50000, "cold_start_calls_compared": 4000}},
    technique="ThreadSanitizer (happens-before race detection) over a barrier-released stress workload with injected yields, plus sequential-vs-concurrent result comparison; thorough: the workload again under valgrind helgrind",
    level_text=("The real library runs under ThreadSanitizer while 2..16 threads hammer shared plan objects of every kind and their own "
                "caches; any race report or any result that differs from the sequential one is a violation. Held on the interleavings "
                "the scheduler and the yield hook produced (overlap counts per plan kind are in the evidence)."),
    level_note="trusted: gcc TSan's happens-before model; only interleavings whose conflicting accesses both executed are visible",
    assumptions=["schedules are those produced by the kernel plus the optional yield points between transform phases"],
)

check(
    "C10",
    runs=[dict(harness="C10_cache", flavour="plain"),
          dict(harness="C10_cache", flavour="cache1", opts={"mode": "histories"}),
          dict(harness="C10_cache", flavour="cache2", opts={"mode": "histories"}),
          dict(harness="C10_cache", flavour="cache1", opts={"mode": "random"}, shards=4),
          dict(harness="C10_cache", flavour="cache2", opts={"mode": "random"}, shards=4),
          dict(harness="C10_cache", flavour="asan", opts={"mode": "random"}, shards=4)],
    rule=("every request sequence of length <= 7 (quick, plus 2000 seeded length-8 ones) / <= 8 (thorough) over an alphabet of 6 lengths "
          "(16, 12, 45, 15, 43, 60|90: power of two, composites sharing prime sub-plans, prime > 41 whose Bluestein plan itself requests a "
          "power-of-two plan), separately for the complex (fft) and the real (rfft) cache, each history in a fresh thread: every result must "
          "equal, bit for bit, the result of the same call in a fresh thread, plan objects taken during the history must still be right at "
          "its end, and after every request the hooked key list of both caches must equal a reference LRU of the configured capacity driven "
          "by the observed get/put trace (size <= K, requested length at the MRU position). LRUCache<int,int>(K=1..4): all put/get/exists "
          "sequences of length 5 (quick) / 6 (thorough) over 6 keys against the same reference. Random histories of 2000 / 10000 requests "
          "over 50 lengths (incl. composite families m | n such as 35/105/175, 91/273, 121/363, 85/425, 125/375) with up to 15 long-lived plans and derived calls (fft(x,n), rfft(x,n), FftFilter, xcorr, welch, hilbert(x,n), czt with an explicit start point, istft(stft)). Library builds with cache size 4 (default), 1 and 2; the random part also under "
          "ASan. non-trivial = history that evicts at least once; distinct = (cache kind, capacity, sequence code)."),
    exhaustive_subspaces={"quick": ["all histories of length <= 7 over 6 lengths, complex and real cache, capacities 1, 2 and 4", "all LRUCache op sequences of length 5 over 6 keys, K=1..4"],
                          "thorough": ["all histories of length <= 8 over 6 lengths, complex and real cache, capacities 1, 2 and 4", "all LRUCache op sequences of length 6 over 6 keys, K=1..4"]},
    min_distinct={"quick": 50000, "thorough": 1000000},
    min_obs={"quick": {"histories_with_eviction": 10000, "held_plan_checks": 500}, "thorough": {"histories_with_eviction": 100000, "held_plan_checks": 5000}},
    technique="runtime monitor: lock-step reference LRU over a hooked get/put trace + differential check of every result against a fresh-thread execution, exhaustive short histories",
    level_text=("All short request histories are executed in fresh threads on three cache-size builds; an executable LRU model consumes the "
                "hooked trace in lock-step and must agree with the hooked cache contents after every request, and every result must equal "
                "the fresh-thread result. Held on the histories counted in the evidence."),
    level_note="trusted: the read-only DSPLIB_VERIF observer (keys(), trace) reports the cache faithfully; the 20-line reference LRU",
    assumptions=["the model consumes the observed trace (it does not re-derive which sub-plans a length needs), so planner refactorings do not alarm while cache-policy changes do"],
)

check(
    "C11",
    runs=[dict(harness="C11_design", flavour="plain"),
          # thorough only: the quick workload once more on the ASan+UBSan build (same oracles; any sanitizer report is a violation)
          dict(harness="C11_design", flavour="asan", tiers=("thorough",), harness_tier="quick", timeout={"quick": 3600, "thorough": 14400})],
    rule=("fir1 for every order 2..256 (plus sampled orders to 2000), cut-offs {0.02,0.1,0.25,0.5,0.75,0.9,0.98} and random, all four types, "
          "default window and custom windows (hann-like, rectangular, random): length rule, symmetry (4*eps*max|h|), |H(0)|=1 (low) / |H(pi)|=1 "
          "(high) within 64*eps*sum|h|, wrong-length custom windows rejected, and for default designs whose bands are all wider than 16/(n+1) "
          "the magnitude response on a long-double grid (1024 quick / 4096 thorough points) inside the masks (pass 1+-0.02, stop <= 0.02, "
          "transition half-width 4/(n+1)); windows hann/hamming/blackman/blackmanharris/cosine/gauss/tukey/kaiser for every length 3..512 "
          "(plus sampled to 1e5) and parameters gauss alpha in [0.5,6], tukey r in [-0.5,1.5], kaiser beta in [0,40]: closed form in long "
          "double (1e-12), range [0,1], symmetry, periodic(n) == first n of symmetric(n+1). custom windows include asymmetric tapers (random, periodic hann/hamming), for which the response must still be symmetric. distinct = (function, parameters). Round-6 additions: fir1 design histories (same order and cut-off with seven windows in random order) compared bit for bit with the same call in a fresh thread; window lengths 32767..65538 and 1e5."),
    exhaustive_subspaces={"quick": ["all fir1 orders 2..256", "all window lengths 3..512"], "thorough": ["all fir1 orders 2..256", "all window lengths 3..512"]},
    min_distinct={"quick": 20000, "thorough": 30000},
    min_obs={"quick": {"mask_checks": 300, "wrong_window_length_cases": 1000}, "thorough": {"mask_checks": 3000, "wrong_window_length_cases": 1000}},
    technique="runtime monitor: closed-form window references and a long-double frequency-response evaluator as oracle over the enumerated orders/lengths; thorough: the quick workload repeated on the ASan+UBSan build",
    level_text=("Designs are executed for every order / length of the quantifier and compared with closed forms and response masks "
                "evaluated in extended precision; held on the evaluations counted in the evidence."),
    level_note="trusted: the closed-form definitions in the harness (MATLAB/scipy conventions) and the long-double I0 series",
    assumptions=["the pass/stop masks are only applied to default (Hamming) designs, as the statement says; custom windows are checked for length, symmetry, unit gain and rejection of wrong lengths"],
)

check(
    "C12",
    runs=[dict(harness="C12_adaptive", flavour="plain"),
          # thorough only: the quick workload once more on the ASan+UBSan build (same oracles; any sanitizer report is a violation)
          dict(harness="C12_adaptive", flavour="asan", tiers=("thorough",), harness_tier="quick", timeout={"quick": 3600, "thorough": 14400})],
    rule=("LMS, NLMS and RLS filters, real and complex, lengths {1..17,20,24,31,32,33,48,64}, random step sizes / leakage / forgetting factors "
          "0.9..1 / diagonal loads 1e-2..1e4, random unknown systems and random lock schedules: streams fed one sample at a time - e == d-y "
          "exactly, y equals sum_j c_j x[k-j] with c = coeffs() read BEFORE the call ((L+8)*eps*sum|c||x|), coefficients bitwise unchanged "
          "while locked, coefficient trajectory within 1e-7 of a long-double reference recursion; the same stream in random frames must give "
          "the same y/e; locked filter == fixed FIR with coeffs(); noise-free convergence of NLMS (after ceil(60L/(mu(2-mu))) samples) and RLS "
          "(40L+200, extended until the initial regularisation lambda^N/load has decayed below 3e-4 of the data term) to misalignment < 1e-6; real RLS after N<=200 samples vs the long-double solution of the "
          "exponentially weighted, diagonally regularised normal equations. distinct = (configuration, input bits). Round-6 additions: NLMS at input levels 1e-7..1e3, systems with a bulk delay and noise-free desired signals (exactly zero first errors), leading silence."),
    min_distinct={"quick": 6000, "thorough": 400000},
    min_obs={"quick": {"locked_samples": 50000, "adapting_samples": 200000, "convergence_runs": 600, "rls_batch_runs": 300},
             "thorough": {"locked_samples": 3000000, "adapting_samples": 12000000, "convergence_runs": 40000, "rls_batch_runs": 20000}},
    technique="runtime monitor: per-sample a-priori oracle using coeffs() read before each call, long-double shadow recursion, batch least-squares reference; thorough: the quick workload repeated on the ASan+UBSan build",
    level_text=("Each filter is driven sample by sample with its coefficients observed before every call, so that the a-priori property, "
                "the error identity and the lock are judged per sample; convergence and the least-squares equivalence are judged on "
                "complete runs. Held on the samples counted in the evidence."),
    level_note="trusted: long double reference recursions written from the textbook (and the header comments); coeffs() as the observation point",
    assumptions=["convergence horizons are the harness's bounded-progress restatement: 60L/(mu(2-mu)) samples for NLMS, 40L+200 samples, extended for lambda close to 1 until the regularisation bias is below 3e-4, for RLS"],
)

check(
    "C13",
    runs=[dict(harness="C13_spectrum", flavour="plain"),
          # thorough only: the quick workload once more on the ASan+UBSan build (same oracles; any sanitizer report is a violation)
          dict(harness="C13_spectrum", flavour="asan", tiers=("thorough",), harness_tier="quick", timeout={"quick": 3600, "thorough": 14400})],
    rule=("welch for nfft in {8,...,4096}, window lengths <= nfft from 8 window families, overlaps {0, wl/2, wl-1, random}, density and "
          "power scaling, real and complex coloured random signals: lengths nfft/2+1 | nfft, non-negative, frequency axis strictly "
          "increasing with spacing 1/nfft, and every value must equal the long-double reference Welch estimate AT THE FREQUENCY THE AXIS "
          "LISTS FOR IT (1e-10 of the maximum); density sum == nfft*mean_seg(sum|x w|^2)/sum(w^2) (1e-10 rel.); bin-centred tone: peak == "
          "A^2 (complex) / A^2/2 (real, within the window's own mirror leakage 4|W(2w0)|/|W(0)| + 1e-9); tones on a grid 8x finer than the "
          "bin spacing: f[argmax] must be the listed frequency nearest the tone; mscohere in [0,1], == 1 for scaled copies, and equal to a "
          "long-double reference coherence for filtered copies and independent noise; short overloads == explicit calls. "
          "distinct = (configuration, signal bits). Round-6 additions: custom windows (flat-top with negative taps, tukey, scaled hann) and call histories with windows of equal length and end taps."),
    min_distinct={"quick": 10000, "thorough": 300000},
    min_obs={"quick": {"label_checks_complex": 600, "label_checks_real": 300, "density_sum_checks": 300, "mscohere_checks": 200},
             "thorough": {"label_checks_complex": 2400, "label_checks_real": 1200, "density_sum_checks": 1200, "mscohere_checks": 800}},
    technique="runtime monitor: complete long-double reference Welch/coherence estimator, label-aware comparison, independent conservation identity and tone-labelling oracle; thorough: the quick workload repeated on the ASan+UBSan build",
    level_text=("Spectral estimators are executed over the parameter grid and compared value by value with a reference written from the "
                "definition; labelling is judged on tones finer than the bin spacing; held on the evaluations counted in the evidence."),
    level_note="trusted: long double radix-2 FFT in the reference (nfft is a power of two here); windows come from dsplib::window (judged by C11)",
    assumptions=["tones for the real-input labelling check stay 3 bins away from 0 and 0.5; exact half-bin ties are not judged"],
)

check(
    "C14",
    runs=[dict(harness="C14_analytic", flavour="plain"),
          # thorough only: the quick workload once more on the ASan+UBSan build (same oracles; any sanitizer report is a violation)
          dict(harness="C14_analytic", flavour="asan", tiers=("thorough",), harness_tier="quick", timeout={"quick": 3600, "thorough": 14400})],
    rule=("hilbert(x) for lengths 3..4096 (quick: all to 300 + a residue class; thorough: all to 1200 + two residue classes), odd and even, six "
          "input kinds with and without DC / Nyquist content: Re z == x (8*n*eps*max|x|), long-double DFT of z vanishes on the negative bins "
          "(32*n*eps), hilbert(x,m) == hilbert(pad/truncate); HilbertFilter lengths {31,32,51,64,101,128,201,300,401} x tw in "
          "{.005,.01,.02,.05,.1}: real part == input delayed by M/2 exactly under random framing, imaginary part == 90-degree shifted tone "
          "within 1e-3*A for tones at the guard frequency max(2tw,6/M), at 0.5-guard and random in between; Tuner for fs in {8,...,65537,96000,1e5,192000,1e6}, "
          "integer / half-integer / random fractional / band-edge f, streams of 3..9*fs samples in random frames: every sample == "
          "x[k]*exp(2*pi*i*f*k/fs) with the phase reduced exactly in long double. distinct = (configuration, input bits). Round-6 additions: a quarter of the hilbert inputs at levels 1e-250..1e250; tuner frequencies 1e-9..1e-4 away from an integer."),
    min_distinct={"quick": 2500, "thorough": 20000},
    min_obs={"quick": {"hilbert_filter_tones": 200, "tuner_streams_fractional_f": 10, "tuner_streams_integer_f": 5},
             "thorough": {"hilbert_filter_tones": 700, "tuner_streams_fractional_f": 20, "tuner_streams_integer_f": 10}},
    technique="runtime monitor: definition-based oracles in long double (DFT of the analytic signal, delayed/quadrature tone, exact phase of the stream index); thorough: the quick workload repeated on the ASan+UBSan build",
    level_text=("Each tool is executed over the stated lengths, frequencies and framings and compared with its mathematical definition "
                "evaluated in extended precision; held on the evaluations counted in the evidence."),
    level_note="trusted: long double DFT and trigonometric functions; M is read from impz()",
)

check(
    "C15",
    runs=[dict(harness="C15_primes", flavour="plain"),
          # thorough only: the quick workload once more on the ASan+UBSan build (same oracles; any sanitizer report is a violation)
          dict(harness="C15_primes", flavour="asan", tiers=("thorough",), harness_tier="quick", timeout={"quick": 3600, "thorough": 14400})],
    rule=("isprime, factor, nextprime, nextpow2, ispow2 for every n in [0,2^20] + one residue class of 4096-blocks up to 2^22 (quick) / every n in "
          "[0,2^22] (thorough) against a sieve of Eratosthenes; all n within 512 (quick) / 4096 (thorough) of 2^16, 2^24, 2^31, 65521^2 and 2^32, "
          "squares and products of two primes near 2^16, and 2e4 (quick) / 1e6 (thorough) random 32-bit arguments against deterministic "
          "Miller-Rabin; primes(n) for all n<=600 and sampled n to 2^19 / 2^22 against the sieve prefix; nextpow2/ispow2 within 256 / 4096 of "
          "every 2^k, k<=30, and INT_MAX. Every call runs under a logical step budget on the DSPLIB_VERIF counter (isprime/factor: "
          "32*(sqrt(n)+64); nextprime: that times (gap+1); primes: 32*(pi(n)+1)*(sqrt(n)+64)). 48/400 seeded call histories mix repeated, decreasing, prime and tiny arguments over primes/isprime/factor/nextprime (answers must not depend on earlier calls). distinct = (function, argument). Round-6 additions: every maximal prime gap and every gap above 292 below 2^32 walked through nextprime/isprime; thorough: isprime for every argument in [2^22, 2^24) against a segmented sieve."),
    exhaustive_subspaces={"quick": ["all n in [0, 2^20] for isprime/factor/nextprime/nextpow2/ispow2"], "thorough": ["all n in [0, 2^22] for isprime/factor/nextprime/nextpow2/ispow2"]},
    min_distinct={"quick": 3000000, "thorough": 15000000},
    technique="runtime monitor: sieve / Miller-Rabin oracle over exhaustive and boundary arguments, logical step-budget hook as termination oracle; thorough: the quick workload repeated on the ASan+UBSan build",
    level_text=("Every argument of the exhaustive range and of the boundary windows is executed and compared with number-theoretic "
                "references, with termination decided on a logical step counter rather than wall-clock; held on the arguments counted in "
                "the evidence."),
    level_note="trusted: the harness sieve and the deterministic Miller-Rabin base set {2,3,5,7,11} for 32-bit arguments; the step hook counts trial divisions / loop iterations",
    assumptions=["nextprime is only judged where the answer is representable (n <= 4294967291); ispow2 only where 2^nextpow2(m) is representable (m <= 2^30)"],
)

check(
    "C16",
    runs=[dict(harness="C16_order", flavour="plain"),
          # thorough only: the quick workload once more on the ASan+UBSan build (same oracles; any sanitizer report is a violation)
          dict(harness="C16_order", flavour="asan", tiers=("thorough",), harness_tier="quick", timeout={"quick": 3600, "thorough": 14400})],
    rule=("sort (ascending and descending) and median for every length 1..4000 (quick: 1..400 + a residue class) x content {distinct, "
          "repeated, sorted, reversed, constant, plateaus with signed zeros} plus shuffled draws from alphabets of 2, 3, 5, 8 and n/4 values for the median: output ordered, index vector a permutation, sorted[i] == "
          "x[idx[i]] bitwise, input untouched; MedianFilter (initial history value) and medfilt (zero padded, centred) for every order 3..64 (thorough: 3..160) "
          "over streams of 2500 / 30000 samples in random frames, compared exactly with a brute-force window median; corr Pearson / Spearman / "
          "Kendall for all permutations of length <= 7 (thorough: 8; pairs listed in both orders) and random Gaussian pairs to n = 2000 against O(n^2) long-double definitions, "
          "symmetry, range [-1,1], and +-1 for strictly monotone (rank) / linear (Pearson) relations given in random order. "
          "distinct = (function, configuration, input bits). Round-6 additions: medfilt on every (order 3..64, length 1..80, three sign patterns); Gaussian pairs repeated on independent scales 1e-60..1e60."),
    exhaustive_subspaces={"quick": ["all permutations of length <= 7 for the three correlation coefficients", "all median filter orders 3..64"],
                          "thorough": ["all permutations of length <= 8 for the three correlation coefficients", "all median filter orders 3..160", "all sort/median lengths 1..4000 x 6 content kinds"]},
    min_distinct={"quick": 25000, "thorough": 300000},
    min_obs={"quick": {"corr_pairs": 10000, "median_filter_outputs": 100000, "median_tied_inputs": 5000},
             "thorough": {"corr_pairs": 100000, "median_filter_outputs": 5000000, "median_tied_inputs": 100000}},
    technique="runtime monitor: brute-force order-statistic and O(n^2) rank-correlation references as oracle, exhaustive permutations; thorough: the quick workload repeated on the ASan+UBSan build",
    level_text=("Sorting, medians and correlation coefficients are executed over the stated lengths, orders and all short permutations "
                "and compared with brute-force definitions; held on the evaluations counted in the evidence."),
    level_note="trusted: std::sort in the brute-force references; long double sums for Pearson",
)

check(
    "C17",
    runs=[dict(harness="C17_math", flavour="plain"),
          # thorough only: the quick workload once more on the ASan+UBSan build (same oracles; any sanitizer report is a violation)
          dict(harness="C17_math", flavour="asan", tiers=("thorough",), harness_tier="quick", timeout={"quick": 3600, "thorough": 14400})],
    rule=("each function of the math toolbox (abs, abs2, angle, exp, expj, log/log2/log10, every power overload incl. array forms, tanh, round, "
          "sum, cumsum, dot, mean, stddev, rms, norm p=1,2,3,4,7, min/max/argmin/argmax/peak2peak real and complex, pow2db/db2pow/mag2db/db2mag, "
          "deg2rad/rad2deg, real/imag/conj/complex, linspace, arange, repelem, flip, upsample/downsample, zeropad, delayseq) on random arguments "
          "with log-uniform magnitudes 1e-100..1e100 and the special points 0, -0, +-1, +-i, the axes of the complex plane and the negative "
          "real axis with +0/-0 imaginary part, integer and fractional exponents in [-8,8], lengths 1..1000, compared with the long-double "
          "value of the definition (tolerance k*eps*scale); shape functions exhaustively for n<=12 (all factors/phases/shifts), linspace "
          "n=1..100, the integer arange cube [-12,12]^3 and fractional aranges with integral count; inverse pairs round-trip. "
          "distinct = (function, argument bits). Round-6 additions: one reduction block in ten is degenerate (all elements zero with either sign, or all equal); arrays with tied extrema."),
    exhaustive_subspaces={"quick": ["upsample/downsample/repelem/delayseq/zeropad/flip for every n<=12, factor, phase, shift", "linspace n=1..100"],
                          "thorough": ["upsample/downsample/repelem/delayseq/zeropad/flip for every n<=12, factor, phase, shift", "linspace n=1..100", "integer arange for every start, stop, step in [-12,12]"]},
    min_distinct={"quick": 2500000, "thorough": 80000000},
    technique="runtime monitor: long-double evaluation of each mathematical definition as oracle with rounding-model tolerances; thorough: the quick workload repeated on the ASan+UBSan build",
    level_text=("Every toolbox function is executed on special points and log-uniform random arguments and compared with its definition "
                "in extended precision; shape functions are enumerated for small sizes. Held on the evaluations counted in the evidence."),
    level_note="trusted: long double libm (expl, logl, powl, atan2l ...); complex dot is taken as the bilinear sum the library documents by its use (no conjugation)",
    assumptions=["arguments whose squares or powers overflow are not generated; delayseq is only instantiable for real arrays",
                 "argmax/argmin of a real array with tied extrema: the first occurrence is expected (the MATLAB/NumPy convention the library follows); "
                 "complex arrays with tied moduli are counted and not judged; round() is round-half-away-from-zero as std::round"],
)

check(
    "C18",
    runs=[dict(harness="C18_delay", flavour="plain"),
          # thorough only: the quick workload once more on the ASan+UBSan build (same oracles; any sanitizer report is a violation)
          dict(harness="C18_delay", flavour="asan", tiers=("thorough",), harness_tier="quick", timeout={"quick": 3600, "thorough": 14400})],
    rule=("white signals of 128, 129 and 200 samples with every integer shift in [-len/4, len/4], noiseless and with noise 30..60 dB below, "
          "real and complex, plus signals to 5000 samples with sampled shifts and sampling rates 1..48000: finddelay == d exactly, "
          "|gccphat.tau*fs - d| <= 0.5, delayseq == exact shift with zero fill, peakloc(real) == vertex of the parabola (long double); "
          "PreambleDetector with Zadoff-Chu (16..512) and m-sequence (31..511) preambles embedded at every offset modulo the frame length "
          "(quick: a seeded stride of F/24), amplitudes -70..+20 dB, noise 30..60 dB below, thresholds 0.3..0.9, and preamble-free streams: "
          "the first report is judged against a long-double normalised matched-filter statistic (frame and offset of the first sample above "
          "1.07*thr, bitwise aligned preamble samples, score >= 0.97 at the true end; silence when the statistic stays below 0.93*thr; "
          "streams entering the band first are skipped and counted). In half of the detector streams a call with a wrong frame length is made before the preamble completes; it must throw and change nothing. distinct = (configuration, signal bits). Round-6 additions: a third of the detector streams are fed several frames per call; finddelay call histories (long/loud then short/quiet pairs of equal transform size)."),
    min_distinct={"quick": 7000, "thorough": 300000},
    min_obs={"quick": {"delay_cases": 500, "detections_at_true_preamble_end": 100, "detector_streams_expecting_silence": 10},
             "thorough": {"delay_cases": 1000, "detections_at_true_preamble_end": 1000, "detector_streams_expecting_silence": 100}},
    technique="runtime monitor: ground truth by construction for delays; long-double matched-filter statistic as oracle for the first detection event of a stream; thorough: the quick workload repeated on the ASan+UBSan build",
    level_text=("Estimators are executed on signals whose delay / preamble position is known by construction; the detector's first report "
                "is compared with an extended-precision evaluation of its documented statistic. Held on the streams counted in the evidence."),
    level_note="trusted: the long-double statistic r = |h^H x|^2/(|h|^2 |x|^2); only the first detection of a stream is judged (the ring buffer skips the rest of a reporting frame)",
    assumptions=["complex delayseq does not instantiate, complex shifts are made by the harness", "complex peakloc is Jacobsen's estimator, not a parabola, and is not judged"],
)

check(
    "C19",
    runs=[dict(harness="C19_noise", flavour="plain"),
          # thorough only: the quick workload once more on the ASan+UBSan build (same oracles; any sanitizer report is a violation)
          dict(harness="C19_noise", flavour="asan", tiers=("thorough",), harness_tier="quick", timeout={"quick": 3600, "thorough": 14400})],
    rule=("awgn for lengths 1e4..1e5 (quick) / 1e6 (thorough), requested SNR -10..80 dB, signal powers over 120 dB, tones / broadband / "
          "two-level signals, real and complex: noise power (sum over both components for complex) within 6 standard errors (sqrt(2/n) real, "
          "sqrt(1/n) complex) of P_x/10^(snr/10), zero mean, lag-1..8 autocorrelation within 6/sqrt(n), 4th standardised moment within "
          "6*sqrt(24/n) of 3, complex components uncorrelated and of equal power; noise-free tones (on/off bin) with 1..5 harmonics at "
          "-10..-40 dBc, >= 100 bins apart, lengths 2048..2^17 incl. non powers of two, amplitudes over 80 dB: thd within 0.1 dB, component "
          "frequencies within 0.1 bin, harmonic levels within 0.1 dB, sinad within 1.5 dB, thd/sinad/snr scale invariant within 1e-3 dB; "
          "rng(seed) for seeds 0..20000 (quick: every 7th of 0..3000): an interleaved rand/randn/randi/awgn script replays bitwise and every bounded draw "
          "stays inside its inclusive bounds. distinct = (configuration, signal bits). Round-6 additions: thd with aliased = true for fundamentals at 0.26..0.47 fs whose harmonics fold from beyond Nyquist (up to beyond 2 fs), folded components 110 bins apart."),
    min_distinct={"quick": 700, "thorough": 20000},
    min_obs={"quick": {"awgn_cases_real": 25, "awgn_cases_complex": 25, "thd_cases": 50, "replayed_scripts": 100},
             "thorough": {"awgn_cases_real": 100, "awgn_cases_complex": 100, "thd_cases": 250, "replayed_scripts": 1000}},
    technique="runtime monitor: statistical oracles with explicit standard-error tolerances on y-x, analytic tone/harmonic ground truth, bitwise replay of generator scripts; thorough: the quick workload repeated on the ASan+UBSan build",
    level_text=("The noise actually injected (y - x) is measured and compared with the requested power at 6 standard errors; measurement "
                "functions are judged on signals whose harmonic content is known by construction; generator scripts are replayed bitwise. "
                "Held on the cases counted in the evidence; a bias below 6 standard errors at the largest n is not detectable."),
    level_note="trusted: Gaussian sampling theory for the estimator variances; 6-sigma tolerances give a false-alarm probability below 1e-7 per test",
)

check(
    "C20",
    runs=[dict(harness="C20_dynamics", flavour="plain"),
          # thorough only: the quick workload once more on the ASan+UBSan build (same oracles; any sanitizer report is a violation)
          dict(harness="C20_dynamics", flavour="asan", tiers=("thorough",), harness_tier="quick", timeout={"quick": 3600, "thorough": 14400})],
    rule=("random configurations (thresholds -50..0 dB, ratios 1..50, knee widths 0..20 dB, attack/release 0..4 s, sample rates 8k..192k): "
          "with zero attack and release, Compressor and Limiter on input levels -100..+20 dB plus a 0.01 dB grid and 1e-7 dB steps around both "
          "knee edges vs the long-double static characteristic (1e-9 dB), gain in [0,1+1e-12], monotone, continuous across the knee edges; "
          "arbitrary signals (noise, bursts, steps, silence) of 2e4 (quick) / 1e5 (thorough) samples through Compressor, Limiter and "
          "NoiseGate: gain in [0,1], |out| <= |in|, zero-attack Limiter never above its threshold; level steps: smoothed gain monotone with "
          "10-90% time == configured attack/release time (+-2 samples +-1%); Agc with targets 0.01..100, inputs over 80 dB, averaging "
          "lengths 1..1000, real and complex constant-envelope inputs in random frames: settled output power within 1% of the target when "
          "the needed gain is below max_gain, gain never above max_gain. distinct = (configuration, signal bits). Round-6 additions: weak AGC inputs (-100..-62 dBFS) with reachable targets; two differently configured Compressors / Limiters fed the same blocks alternately, each judged by its own static curve."),
    min_distinct={"quick": 3500, "thorough": 70000},
    min_obs={"quick": {"static_levels_judged": 100000, "timing_measurements": 150, "agc_runs_inside_gain_range": 20, "limiter_ceiling_samples": 1000000},
             "thorough": {"static_levels_judged": 1000000, "timing_measurements": 800, "agc_runs_inside_gain_range": 100, "limiter_ceiling_samples": 10000000}},
    technique="runtime monitor: long-double static characteristic as oracle on level sweeps, range/ceiling invariants on arbitrary signals, step-response timing monitor; thorough: the quick workload repeated on the ASan+UBSan build",
    level_text=("Processors are executed on level sweeps finer than the knee and on arbitrary signals; static levels are compared with the "
                "documented characteristic in extended precision and the invariants are asserted on every sample. Held on the samples "
                "counted in the evidence."),
    level_note="trusted: the harness's transcription of the documented static characteristic (unity / knee / slope 1/R or ceiling)",
)
