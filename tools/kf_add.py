#!/usr/bin/env python3
"""kf_add.py PROPERTY STATUS KEY COMMIT WHAT  - append an entry to known_findings.json (dev-time tool, never used by checks)."""
import json, sys, os
p = os.path.join(os.path.dirname(os.path.dirname(os.path.abspath(__file__))), "known_findings.json")
d = json.load(open(p))
prop, status, key, commit, what = sys.argv[1:6]
e = dict(property=prop, status=status, key=key, what=what)
if status == "fixed":
    e["commit"] = commit
    e["record"] = "fixed: property=%s %s %s" % (prop, commit, what)
d["findings"].append(e)
json.dump(d, open(p, "w"), indent=1)
