#!/bin/bash
# confirm_seed.sh <dir with patch.diff demo.sh ...> <tag>  - dev-time: confirms a seeded change in a scratch worktree of /repo
# (applies, compiles, 175 tests pass, demo passes without and fails with the change). Prints one RESULT line. Removes the worktree.
src="$1"; tag="$2"; wt=/tmp/sv/$tag
CM="-G Ninja -DCMAKE_BUILD_TYPE=RelWithDebInfo -DDSPLIB_BUILD_TESTS=ON -DCPM_USE_LOCAL_PACKAGES=ON -DCPM_SOURCE_CACHE=/w/cpm -DFETCHCONTENT_SOURCE_DIR_GOOGLETEST=/usr/src/googletest -DFETCHCONTENT_TRY_FIND_PACKAGE_MODE=ALWAYS -DFETCHCONTENT_UPDATES_DISCONNECTED=ON -DCMAKE_POLICY_VERSION_MINIMUM=3.5 -DCMAKE_CXX_FLAGS=-Wno-error"
mkdir -p /tmp/sv; git -C /repo worktree remove --force $wt 2>/dev/null; rm -rf $wt
git -C /repo worktree add -q $wt HEAD || { echo "RESULT $tag worktree_failed"; exit 1; }
cd $wt
letter=$(basename "$src"); mkdir -p $wt/OUT; cp -r "$src" $wt/OUT/$letter; ln -s $wt/OUT/$letter $wt/SEED
cmake -S . -B _build $CM > /dev/null 2>&1 && cmake --build _build -j6 > /dev/null 2>&1 || { echo "RESULT $tag clean_build_failed"; }
( cd $wt && timeout 900 bash SEED/demo.sh ) > SEED/confirm_clean.log 2>&1; rc_clean=$?
git apply SEED/patch.diff 2> SEED/apply.log || { echo "RESULT $tag patch_does_not_apply"; git -C /repo worktree remove --force $wt; exit 1; }
cmake --build _build -j6 > SEED/build_mut.log 2>&1; rc_build=$?
( cd _build/tests && timeout 900 ./dsplib-test ) > SEED/tests_mut.log 2>&1; rc_tests=$?
passed=$(grep -c "^\[       OK \]" SEED/tests_mut.log)
( cd $wt && timeout 900 bash SEED/demo.sh ) > SEED/confirm_mut.log 2>&1; rc_mut=$?
echo "RESULT $tag demo_clean_rc=$rc_clean build_rc=$rc_build tests_rc=$rc_tests tests_ok=$passed demo_mut_rc=$rc_mut"
mkdir -p /tmp/sv/logs/$tag; cp SEED/confirm_clean.log SEED/confirm_mut.log SEED/tests_mut.log /tmp/sv/logs/$tag/ 2>/dev/null
cd /; git -C /repo worktree remove --force $wt; git -C /repo worktree prune
