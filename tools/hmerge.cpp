// hmerge FILE...  - counts the distinct 64-bit values stored in the given binary files (the per-shard ".hashes" files of the
// monitor programs). Used by bin/vcheck to measure distinct_nontrivial without holding a Python set of 10^8 integers.
#include <algorithm>
#include <cstdint>
#include <cstdio>
#include <vector>

int main(int argc, char** argv) {
    std::vector<uint64_t> v;
    for (int i = 1; i < argc; ++i) {
        FILE* f = std::fopen(argv[i], "rb");
        if (!f) {
            continue;
        }
        std::fseek(f, 0, SEEK_END);
        const long sz = std::ftell(f);
        std::fseek(f, 0, SEEK_SET);
        const size_t n = size_t(sz) / 8;
        const size_t old = v.size();
        v.resize(old + n);
        if (n && std::fread(v.data() + old, 8, n, f) != n) {
            std::fclose(f);
            return 2;
        }
        std::fclose(f);
    }
    std::sort(v.begin(), v.end());
    const size_t d = size_t(std::unique(v.begin(), v.end()) - v.begin());
    std::printf("%zu\n", d);
    return 0;
}
