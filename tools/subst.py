#!/usr/bin/env python3
"""subst.py FILE  — reads pairs from a python file given as 2nd arg: EDITS=[(old,new),...]; preserves CRLF/LF."""
import sys, runpy
path, editfile = sys.argv[1], sys.argv[2]
edits = runpy.run_path(editfile)['EDITS']
raw = open(path, 'rb').read()
crlf = b'\r\n' in raw
s = raw.decode().replace('\r\n', '\n')
for old, new in edits:
    if s.count(old) != 1:
        sys.exit(f"{path}: pattern occurs {s.count(old)} times:\n{old}")
    s = s.replace(old, new)
if crlf:
    s = s.replace('\n', '\r\n')
open(path, 'wb').write(s.encode())
